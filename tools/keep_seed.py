#!/usr/bin/env python3
"""Validate a sub-agent's seeded change and keep it under /verif/seeded/<name>/.

usage: keep_seed.py <src_dir with patch.diff, demo.py[, notes.md]> <name> <property> <needs (free text)> <Cxx> [<Cyy>...]
Steps (all in a scratch worktree of /repo HEAD under /var/tmp, removed afterwards):
  1. demo.py on the unchanged tree must exit 0          2. patch applies
  3. pinned test-suite: every baseline test still passes and nothing that passes today fails
  4. demo.py with the change must exit non-zero         5. run the named checks (quick tier) against the scratch tree
Writes patch.diff, demo.py, notes.md, meta.json.
"""
import json, os, shutil, subprocess, sys, time
src, name, prop, needs, checks = sys.argv[1], sys.argv[2], sys.argv[3], sys.argv[4], sys.argv[5:]
wt = '/var/tmp/mut/seed_' + name
subprocess.run(['git', '-C', '/repo', 'worktree', 'remove', '--force', wt], capture_output=True)
os.makedirs('/var/tmp/mut', exist_ok=True)
subprocess.run(['git', '-C', '/repo', 'worktree', 'add', '-q', '--detach', wt, 'HEAD'], check=True)
head = subprocess.run(['git', '-C', '/repo', 'rev-parse', '--short', 'HEAD'], capture_output=True, text=True).stdout.strip()
env = dict(os.environ, PYTHONPATH=wt, OMP_NUM_THREADS='1', PYTHONDONTWRITEBYTECODE='1')
meta = {'name': name, 'property': prop, 'needs_to_manifest': needs, 'repo_head': head, 'ran': []}
ok = True
try:
    demo = os.path.join(src, 'demo.py')
    r0 = subprocess.run(['/venv/bin/python', demo], env=env, capture_output=True, text=True, cwd=wt, timeout=600)
    meta['demo_unchanged_exit'] = r0.returncode
    meta['ran'].append('PYTHONPATH=<scratch> /venv/bin/python demo.py   (unchanged: exit %d)' % r0.returncode)
    subprocess.run(['git', '-C', wt, 'apply', '--whitespace=nowarn', os.path.abspath(os.path.join(src, 'patch.diff'))], check=True)
    rb = subprocess.run(['/venv/bin/python', '/verif/tools/baseline.py', wt], capture_output=True, text=True)
    line = [l for l in rb.stdout.splitlines() if l.startswith('passed=')]
    meta['suite_with_change'] = line[0] if line else rb.stdout[-300:]
    meta['ran'].append('/verif/tools/baseline.py <scratch>   (%s)' % meta['suite_with_change'])
    r1 = subprocess.run(['/venv/bin/python', demo], env=env, capture_output=True, text=True, cwd=wt, timeout=600)
    meta['demo_changed_exit'] = r1.returncode
    meta['demo_changed_output_tail'] = (r1.stdout + r1.stderr)[-600:]
    meta['ran'].append('PYTHONPATH=<scratch> /venv/bin/python demo.py   (changed: exit %d)' % r1.returncode)
    ok = (r0.returncode == 0 and r1.returncode != 0 and rb.returncode == 0 and 'passed=2020' in meta['suite_with_change'])
    meta['qualifies'] = ok
    meta['checks'] = {}
    for c in checks:
        e2 = dict(os.environ, VERIF_SCRATCH='/var/tmp/verif_scratch/seed_' + name)
        t = time.time()
        r = subprocess.run(['/verif/check', c, '--tier', 'quick', '--repo', wt], capture_output=True, text=True, env=e2)
        lines = r.stdout.strip().splitlines()
        viol = [l for l in lines if l.startswith('VIOLATION')]
        first = next((l.strip() for l in lines if l.startswith('  case=')), '')
        st = 'DETECTED' if (r.returncode == 1 and viol) else ('MISSED' if r.returncode == 0 else 'ERROR rc=%d' % r.returncode)
        meta['checks'][c] = {'status': st, 'first_counterexample': first[:400], 'summary': lines[-1] if lines else '', 'wall_s': round(time.time() - t, 1)}
        meta['ran'].append('./check %s --tier quick --repo <scratch>   (%s)' % (c, st))
        print(c, st, first[:200])
        if st.startswith('ERROR'):
            print(r.stdout[-1500:], r.stderr[-1500:])
finally:
    subprocess.run(['git', '-C', '/repo', 'worktree', 'remove', '--force', wt], capture_output=True)
    subprocess.run(['rm', '-rf', '/var/tmp/verif_scratch/seed_' + name])
print('qualifies' if ok else 'DOES NOT QUALIFY', json.dumps({k: meta[k] for k in ('demo_unchanged_exit', 'demo_changed_exit', 'suite_with_change')}))
if ok:
    dst = '/verif/seeded/' + name
    os.makedirs(dst, exist_ok=True)
    for f in ('patch.diff', 'demo.py', 'notes.md'):
        if os.path.exists(os.path.join(src, f)):
            shutil.copy(os.path.join(src, f), os.path.join(dst, f))
    json.dump(meta, open(os.path.join(dst, 'meta.json'), 'w'), indent=1)
