NOT_APPLICABLE = {}
add('C07', 'model_checking',
    'Every label vector over a 4-symbol alphabet up to the tier length x every parameter value x seeds {0,1,2} is run on the real Constraints class against independent rules (E1), and for small instances every answer sequence of the scripted random generator is enumerated (E3: complete execution tree, else all sequences within the deviation bound). This covers the "all label vectors / all seeds" quantifier on a finite alphabet completely, which no sampled test can.',
    'Trusted: the harness rules in checks/c07_constraints.py; integer coordinates make neighbour ties exact. Scripted-RNG violations are reported only after a real integer seed reproduces them. No claim beyond the enumerated lengths.',
    'bounded-exhaustive input enumeration + stateless exploration of all scripted RNG answer sequences (deviation-bounded DFS by re-execution)', 'DESIGN.md section 5 C07')
