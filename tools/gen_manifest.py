#!/usr/bin/env python3
"""Regenerate MANIFEST.json from the table below (kept valid at all times)."""
import json, os
V = '/verif'
CHECKS = {}
def add(pid, cat, text, note, tech, ref):
    CHECKS[pid] = dict(cat=cat, text=text, note=note, tech=tech, ref=ref)
exec(open(os.path.join(V, 'tools', 'manifest_table.py')).read())
props = [json.loads(l)['id'] for l in open(os.path.join(V, 'properties.jsonl'))]
checks = []
for pid in props:
    if pid not in CHECKS:
        continue
    c = CHECKS[pid]
    checks.append({
        'property_id': pid,
        'quick_cmd': './check %s --tier quick' % pid,
        'thorough_cmd': './check %s --tier thorough' % pid,
        'evidence_file': '/verif/evidence/%s.json' % pid,
        'replay_cmd_template': './check %s --replay {path}' % pid,
        'engine': 'mc',
        'level_claimed': {'category': c['cat'], 'text': c['text'], 'design_ref': c['ref']},
        'level_note': c['note'],
        'technique': c['tech'],
    })
na = [{'property_id': p, 'reason': NOT_APPLICABLE.get(p, 'check not built yet in this session (planned, see DESIGN.md section 5); not claimed')} for p in props if p not in CHECKS]
m = {
    'version': 1,
    'setup_cmd': './tools/setup.sh',
    'hooks': {
        'guard': 'METRIC_LEARN_VERIF',
        'enable': 'none needed: all observation seams are on the harness side (wrapped module-level names, instrumented arguments, scripted RandomState); the checks import /repo\'s working tree directly (sys.path) and export METRIC_LEARN_VERIF=1 which no source line reads',
        'baseline_off_cmd': 'cd /repo && /venv/bin/python -m pytest -ra -q -p no:cacheprovider --timeout=900 --continue-on-collection-errors',
        'source_commits': [],
        'add_only': True,
    },
    'engines': [{'name': 'mc', 'path': '/verif/mc', 'serves_properties': sorted(CHECKS),
                 'kind_free_text': 'hand-written explicit-state / bounded-exhaustive explorer in Python running the real implementation: '
                                   'E1 exhaustive enumeration of finite input/configuration alphabets, E2 breadth-first search over API call histories with state digests, '
                                   'E3 stateless enumeration of all answers of a scripted RandomState (deviation bounded when the tree exceeds the cap), '
                                   'E4 enumeration of solver iteration budgets (every reachable solver state)'}],
    'checks': checks,
    'not_applicable': na,
    'notes': 'See DESIGN.md. known_findings.json lists repaired defects (fixed:) and recorded ones (known:). seeded/ holds validated property-breaking changes used to demonstrate detection.',
}
json.dump(m, open(os.path.join(V, 'MANIFEST.json'), 'w'), indent=1)
print('checks:', [c['property_id'] for c in checks], 'not_applicable:', [n['property_id'] for n in na])
