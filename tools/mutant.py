#!/usr/bin/env python3
"""Run checks against a patched scratch copy of /repo (never touches /repo or the committed evidence).

usage: mutant.py <patch.diff | revert:<commit>> <Cxx> [<Cyy> ...] [--tier quick] [--seed N] [--keep] [--baseline]
Prints one line per check: DETECTED (exit 1 with a VIOLATION line) / MISSED (exit 0) / ERROR (other).
"""
import hashlib, os, subprocess, sys
args = sys.argv[1:]
tier, seed, keep, baseline = 'quick', '0', False, False
pos = []
i = 0
while i < len(args):
    if args[i] == '--tier': tier = args[i + 1]; i += 2
    elif args[i] == '--seed': seed = args[i + 1]; i += 2
    elif args[i] == '--keep': keep = True; i += 1
    elif args[i] == '--baseline': baseline = True; i += 1
    else: pos.append(args[i]); i += 1
patch, checks = pos[0], pos[1:]
tag = hashlib.sha1(patch.encode()).hexdigest()[:10]
wt = '/var/tmp/mut/' + tag
os.makedirs('/var/tmp/mut', exist_ok=True)
subprocess.run(['git', '-C', '/repo', 'worktree', 'remove', '--force', wt], capture_output=True)
subprocess.run(['git', '-C', '/repo', 'worktree', 'add', '-q', '--detach', wt, 'HEAD'], check=True)
rc_all = 0
try:
    if patch.startswith('revert:'):
        c = patch.split(':', 1)[1]
        d = subprocess.run(['git', '-C', '/repo', 'diff', c, c + '^'], capture_output=True, check=True).stdout
        subprocess.run(['git', '-C', wt, 'apply', '--whitespace=nowarn', '-'], input=d, check=True)
    else:
        subprocess.run(['git', '-C', wt, 'apply', '--whitespace=nowarn', os.path.abspath(patch)], check=True)
    if baseline:
        r = subprocess.run(['/venv/bin/python', '/verif/tools/baseline.py', wt], capture_output=True, text=True)
        print('baseline:', r.stdout.strip().splitlines()[1] if r.stdout else r.stderr[-300:])
    for c in checks:
        env = dict(os.environ, VERIF_SCRATCH='/var/tmp/verif_scratch/' + tag)
        r = subprocess.run(['/verif/check', c, '--tier', tier, '--seed', seed, '--repo', wt], capture_output=True, text=True, env=env)
        lines = r.stdout.strip().splitlines()
        viol = [l for l in lines if l.startswith('VIOLATION')]
        status = 'DETECTED' if (r.returncode == 1 and viol) else ('MISSED' if r.returncode == 0 else 'ERROR rc=%d' % r.returncode)
        print('%s %s %s :: %s' % (c, status, patch, lines[-1] if lines else r.stderr[-300:]))
        for l in lines:
            if l.startswith('  case=') or l.startswith('INTERNAL'):
                print('    ' + l.strip()[:300]); break
        if status.startswith('ERROR'):
            print(r.stdout[-1500:], r.stderr[-1500:])
finally:
    if not keep:
        subprocess.run(['git', '-C', '/repo', 'worktree', 'remove', '--force', wt], capture_output=True)
        subprocess.run(['rm', '-rf', '/var/tmp/verif_scratch/' + tag])
