#!/usr/bin/env python3
"""mkmutant.py <name> <file under /repo> <old text> <new text>  ->  /verif/mutants/<name>.diff (text must occur exactly once)"""
import subprocess, sys
name, f, old, new = sys.argv[1:5]
p = '/repo/' + f
s = open(p, newline='').read()
assert s.count(old) == 1, (s.count(old), old)
open(p, 'w', newline='').write(s.replace(old, new))
d = subprocess.run(['git', '-C', '/repo', 'diff'], capture_output=True).stdout      # bytes: keeps CRLF of _util.py
subprocess.run(['git', '-C', '/repo', 'checkout', '--', '.'], check=True)
open('/verif/mutants/%s.diff' % name, 'wb').write(d)
print('wrote', name, len(d.splitlines()), 'lines')
