#!/venv/bin/python
"""Run the repository's pinned test suite on a tree and compare with BASELINE.json.

usage: baseline.py [repo_dir]   (default /repo) ; exit 0 iff every stable_pass test passes.
Not referenced by MANIFEST checks; used for fix:/seeded-change validation.
"""
import json, os, subprocess, sys, tempfile, xml.etree.ElementTree as ET
repo = os.path.abspath(sys.argv[1] if len(sys.argv) > 1 else '/repo')
base = json.load(open('/root/.vp/BASELINE.json'))
stable = set(base['stable_pass'])
out = tempfile.mktemp(suffix='.xml', dir='/var/tmp')
env = dict(os.environ, OMP_NUM_THREADS='1', OPENBLAS_NUM_THREADS='1', PYTHONDONTWRITEBYTECODE='1',
           PYTHONPATH=repo)
env.pop('METRIC_LEARN_VERIF', None)
cmd = ['/venv/bin/python', '-m', 'pytest', '-q', '-p', 'no:cacheprovider', '--timeout=900',
       '--continue-on-collection-errors', '-n', '14', '--junitxml=' + out]
r = subprocess.run(cmd, cwd=repo, env=env, stdout=subprocess.PIPE, stderr=subprocess.STDOUT, text=True)
tail = r.stdout.strip().splitlines()[-1:] 
passed, failed = set(), set()
for tc in ET.parse(out).getroot().iter('testcase'):
    name = tc.get('classname') + '::' + tc.get('name')
    bad = any(ch.tag in ('failure', 'error', 'skipped') for ch in tc)
    (failed if bad else passed).add(name)
os.unlink(out)
missing = sorted(stable - passed)
print('pytest:', tail)
print(f'passed={len(passed)} failed={len(failed)} stable={len(stable)} stable_missing={len(missing)}')
for m in missing[:40]:
    print('  MISSING', m)
newly = passed - stable
print(f'newly_passing_beyond_baseline={len(newly)}')
sys.exit(1 if missing else 0)
