#!/bin/bash
# Offline setup: nothing to build (pure Python); verify interpreter, imports and the engine self-test.
set -e
cd "$(dirname "$0")/.."
export OMP_NUM_THREADS=1 PYTHONDONTWRITEBYTECODE=1
/venv/bin/python -c "
import sys; sys.path.insert(0,'.')
from mc import env
import numpy, scipy, sklearn, metric_learn
print('ok', numpy.__version__, scipy.__version__, sklearn.__version__, metric_learn.__file__)
from mc import selftest; selftest.main()
"
mkdir -p evidence replays
