"""Process environment: must be imported before numpy / metric_learn anywhere in the harness.

Pins BLAS threads, makes the tree under test importable and asserts that the
metric_learn that gets imported is the one under VERIF_REPO (default /repo).
"""
import os
import sys

for _k in ('OMP_NUM_THREADS', 'OPENBLAS_NUM_THREADS', 'MKL_NUM_THREADS'):
    os.environ[_k] = '1'
os.environ.setdefault('PYTHONHASHSEED', '0')
os.environ['METRIC_LEARN_VERIF'] = '1'   # guard name recorded in MANIFEST.hooks (no source hook reads it)
sys.dont_write_bytecode = True

VERIF_DIR = os.path.dirname(os.path.dirname(os.path.abspath(__file__)))
REPO = os.path.abspath(os.environ.get('VERIF_REPO', '/repo'))
if REPO in sys.path:
    sys.path.remove(REPO)
sys.path.insert(0, REPO)

import warnings  # noqa: E402
import numpy as np  # noqa: E402
import metric_learn  # noqa: E402

_f = os.path.abspath(metric_learn.__file__)
if not _f.startswith(REPO + os.sep):
    sys.stderr.write('INTERNAL: metric_learn imported from %s, expected under %s\n' % (_f, REPO))
    sys.exit(2)

np.seterr(all='ignore')


def quiet():
    """Silence library warnings inside a case (the oracles that care use catch_warnings(record=True))."""
    warnings.simplefilter('ignore')
