"""Shared training-data alphabet (DESIGN.md section 4).  Everything is deterministic and built by the harness
(no use of metric_learn.constraints): points on the dyadic grid 2^-6, pair / triplet / quadruplet sets without
collapsed pairs, chunk labels, regression targets."""
import functools

import numpy as np

GRID = 2.0 ** -6

SPECS = {            # name: (d, class sizes)
    'S2': (2, (4, 4)),
    'S2u': (2, (4, 6, 5)),
    'S3': (3, (8, 8)),
    'S3u': (3, (5, 7, 4)),
    'S5': (5, (8, 8, 8)),
    'S8': (8, (16, 16)),
    # thorough tier only
    'S4u': (4, (6, 9, 5)),
    'S6': (6, (12, 12, 8)),
}


_SEED_INDEX = {'S2': 0, 'S2u': 1, 'S3': 2, 'S3u': 3, 'S5': 4, 'S8': 5, 'S4u': 6, 'S6': 7}


class DS(object):
    pass


def _points(d, sizes, seed):
    rs = np.random.RandomState(seed)
    y = np.repeat(np.arange(len(sizes)), sizes)
    while True:
        centers = 2.0 * rs.randn(len(sizes), d)
        X = centers[y] + rs.randn(len(y), d)
        X = np.round(X / GRID) * GRID
        D = np.sqrt(((X[:, None] - X[None]) ** 2).sum(-1))
        np.fill_diagonal(D, np.inf)
        C = np.cov(X, rowvar=False)
        ok = D.min() >= 2.0 ** -4 and np.linalg.cond(C) <= 1e4
        for c in range(len(sizes)):                      # within-class scatter as full rank as the class allows
            Xc = X[y == c]
            r = np.linalg.matrix_rank(np.cov(Xc, rowvar=False))
            ok = ok and r == min(d, len(Xc) - 1)
        Xw = X - np.array([X[y == c].mean(0) for c in range(len(sizes))])[y]
        ok = ok and np.linalg.cond(Xw.T.dot(Xw)) <= 1e4
        if ok:
            return X, y


def _chunks(y):
    ch = -np.ones(len(y), dtype=int)
    nxt = 0
    pattern = [2, 3]
    pi = 0
    for c in np.unique(y):
        idx = list(np.where(y == c)[0])
        if len(idx) >= 5:
            idx = idx[1:]                # first point of a large class stays outside every chunk (-1)
        while len(idx) >= 2:
            s = pattern[pi % 2]
            pi += 1
            if len(idx) < s or len(idx) - s == 1:
                s = len(idx) if len(idx) <= 3 else 2
            ch[idx[:s]] = nxt
            nxt += 1
            idx = idx[s:]
    return ch


def _tuples(X, y):
    cls = [np.where(y == c)[0] for c in np.unique(y)]
    pos, neg = [], []
    for ci, I in enumerate(cls):
        for a, b in zip(I[:-1], I[1:]):
            pos.append((int(a), int(b)))
        for a, b in zip(I[:-2], I[2:]):
            pos.append((int(b), int(a)))
        J = cls[(ci + 1) % len(cls)]
        for k, a in enumerate(I):
            neg.append((int(a), int(J[k % len(J)])))
            neg.append((int(J[(k + 1) % len(J)]), int(a)))
    m = min(len(pos), len(neg), 20)
    pos, neg = pos[:m], neg[:m]
    pairs = np.array(pos + neg)
    ypairs = np.r_[np.ones(m, dtype=int), -np.ones(m, dtype=int)]
    # interleave so that labels are not sorted
    order = np.arange(2 * m).reshape(2, m).T.ravel()
    pairs, ypairs = pairs[order], ypairs[order]
    d2 = lambda p: float(((X[p[0]] - X[p[1]]) ** 2).sum())
    sat = [p + q for p in pos for q in neg if d2(p) * 1.5 < d2(q) and len({p[0], p[1], q[0], q[1]}) == 4]
    step = max(1, len(sat) // 16)
    quads_sat = np.array(sat[::step][:16])
    quads_mix = quads_sat.copy()
    quads_mix[::2] = quads_mix[::2][:, [2, 3, 0, 1]]          # every second constraint is violated under identity
    trip = []
    for ci, I in enumerate(cls):
        J = cls[(ci + 1) % len(cls)]
        for k, a in enumerate(I):
            trip.append((int(a), int(I[(k + 1) % len(I)]), int(J[k % len(J)])))
    return pairs, ypairs, quads_sat, quads_mix, np.array(trip)


@functools.lru_cache(maxsize=None)
def dataset(name, seed=0):
    """name in SPECS, or 'R' (rotating member instantiated from `seed`)."""
    if name == 'R':
        d, sizes, s = 3, (6, 6, 6), 900 + seed
    else:
        d, sizes = SPECS[name]
        s = 100 + _SEED_INDEX[name]
    X, y = _points(d, sizes, s)
    ds = DS()
    ds.name, ds.d, ds.sizes, ds.X, ds.y = name, d, sizes, X, y
    rs = np.random.RandomState(s + 1)
    w = rs.randn(d)
    ds.yreg = np.round((X.dot(w) + 0.5 * y + 0.25 * rs.randn(len(y))) / GRID) * GRID
    ds.chunks = _chunks(y)
    ds.pairs_idx, ds.ypairs, ds.quads_sat_idx, ds.quads_idx, ds.trip_idx = _tuples(X, y)
    ds.pairs, ds.quads, ds.quads_sat, ds.trip = X[ds.pairs_idx], X[ds.quads_idx], X[ds.quads_sat_idx], X[ds.trip_idx]
    for a in (ds.X, ds.y, ds.yreg, ds.chunks, ds.pairs_idx, ds.ypairs, ds.quads_idx, ds.quads_sat_idx, ds.trip_idx,
              ds.pairs, ds.quads, ds.quads_sat, ds.trip):
        a.setflags(write=False)
    return ds


THOROUGH = ['S2', 'S2u', 'S3', 'S3u', 'S4u', 'S5', 'S6', 'S8', 'R']


def names(tier, seed=None, small=False):
    if small:
        return ['S3u', 'S5'] if tier == 'quick' else list(THOROUGH)
    return ['S2', 'S3u', 'S5', 'R'] if tier == 'quick' else list(THOROUGH)


def spd(d, k=0):
    """A fixed well-conditioned SPD matrix with dyadic entries (array-valued prior / init option)."""
    rs = np.random.RandomState(40 + d + 10 * k)
    A = np.round(rs.randn(d, d) * 4) / 8
    return A.dot(A.T) + np.eye(d)


def query_points(ds, L=None):
    """The 12-point query alphabet Q(d) of DESIGN.md section 4 (finite, squares do not overflow)."""
    X, d = ds.X, ds.d
    big = 1e100
    q = [np.zeros(d), X[0].copy(), X[1].copy(), X[0].copy(), X[2] * big, X[3] * 1e-100, X[2] * -big,
         1e6 * X[4] + X[5], np.array([big, -big, 1e-100, 1.0, -1.0, 1e50, 1e-50, 3.0][:d]),
         np.arange(1, d + 1, dtype=float), None, X[1].copy()]
    q[11][-1] = np.nextafter(q[11][-1], np.inf)          # grid neighbour: last bit of one coordinate
    if L is not None and L.shape[0] < d and L.size:
        _, _, vt = np.linalg.svd(L)
        q[10] = X[1] + vt[-1] * 3.0                       # moves X[1] along the null space of the learned transform
    else:
        q[10] = X[1] + np.r_[np.zeros(d - 1), 3.0]
    return np.array(q)


def scaled(ds, c):
    """The same dataset with every coordinate multiplied by c (c = 64 gives integer-valued points)."""
    s = DS()
    s.__dict__.update(ds.__dict__)
    s.name = '%sx%g' % (ds.name, c)
    s.X = ds.X * c
    s.yreg = ds.yreg.copy()
    s.pairs, s.quads, s.quads_sat, s.trip = s.X[ds.pairs_idx], s.X[ds.quads_idx], s.X[ds.quads_sat_idx], s.X[ds.trip_idx]
    return s


def relabelled(ds):
    """The same points and tuples with OTHER labels (class labels rolled, targets reversed, pair labels negated on every third
    pair, chunk ids rolled): a second training set that differs from `ds` only in its label arguments."""
    s = DS()
    s.__dict__.update(ds.__dict__)
    s.name = ds.name + '~relabelled'
    s.y = np.roll(ds.y, 3)
    s.yreg = ds.yreg[::-1].copy()
    yp = ds.ypairs.copy()
    yp[::3] *= -1
    s.ypairs = yp
    s.chunks = np.roll(ds.chunks, 2)
    return s
