"""Harness-side observation seams (no source hooks): read solver-local variables at a function's return,
wrap module-level names, always restoring them."""
import sys


class LocalsAtReturn(object):
    """Record copies of the named local variables each time a frame of `code` returns."""

    def __init__(self, code, names):
        self.code, self.names, self.records = code, names, []

    def _prof(self, frame, event, arg):
        if event == 'return' and frame.f_code is self.code:
            loc = frame.f_locals
            rec = {}
            for n in self.names:
                if n in loc:
                    v = loc[n]
                    rec[n] = v.copy() if hasattr(v, 'copy') else v
            self.records.append(rec)

    def __enter__(self):
        self._old = sys.getprofile()
        sys.setprofile(self._prof)
        return self

    def __exit__(self, *exc):
        sys.setprofile(self._old)


class Patched(object):
    """Temporarily replace attribute `name` of `obj` by `new` (e.g. metric_learn.nca.minimize)."""

    def __init__(self, obj, name, new):
        self.obj, self.name, self.new = obj, name, new

    def __enter__(self):
        self.old = getattr(self.obj, self.name)
        setattr(self.obj, self.name, self.new)
        return self

    def __exit__(self, *exc):
        setattr(self.obj, self.name, self.old)
