"""E2: explicit-state breadth-first search over API call histories on real objects.

A state is represented by the event history that reaches it; the live object is rebuilt by replaying the history
on a fresh object (live estimators and the closures they hand out do not copy faithfully).  States are merged on a
digest of the COMPLETE concrete state, which is sound by construction (equal states have equal futures).
"""
import collections


class Search(object):
    def __init__(self, build, events, apply, digest, invariant, depth, max_transitions=None, copy_state=None):
        self.build = build              # build() -> fresh world
        self.events = events            # events(world) -> list of event descriptors enabled in the world
        self.apply = apply              # apply(world, ev) -> outcome  (executes the real API call, mutates world)
        self.digest = digest            # digest(world) -> hashable
        self.invariant = invariant      # invariant(world_after, ev, outcome, hist, digest_before) -> list of violations
        self.depth = depth
        self.max_transitions = max_transitions
        self.copy_state = copy_state    # optional: faithful deep copy of a world (then states are kept live, no replay)
        self.live = {}
        self.states = 0
        self.transitions = 0
        self.max_depth = 0
        self.exhausted = True
        self.violations = []
        self.sample_trace = None
        self.outcomes = set()

    def replay(self, hist):
        if self.copy_state is not None and tuple(hist) in self.live:
            return self.copy_state(self.live[tuple(hist)])
        w = self.build()
        for ev in hist:
            self.apply(w, ev)
        return w

    def run(self):
        w0 = self.build()
        d0 = self.digest(w0)
        seen = {d0: []}
        frontier = collections.deque([([], d0)])
        self.states = 1
        while frontier:
            hist, dig = frontier.popleft()
            if len(hist) >= self.depth:
                continue
            w = self.replay(hist)
            if self.digest(w) != dig:
                self.violations.append(dict(clause='replay_divergence', hist=list(hist),
                                            msg='replaying the same call history produced a different state'))
                continue
            evs = self.events(w)
            for ev in evs:
                if self.max_transitions and self.transitions >= self.max_transitions:
                    self.exhausted = False
                    return self
                w2 = self.replay(hist)
                out = self.apply(w2, ev)
                self.transitions += 1
                for v in self.invariant(w2, ev, out, hist, dig) or []:
                    v = dict(v)
                    v['hist'] = list(hist) + [ev]
                    self.violations.append(v)
                k = self.digest(w2)
                self.outcomes.add((ev if isinstance(ev, str) else repr(ev), k))
                if k not in seen:
                    if self.copy_state is not None:
                        self.live[tuple(hist) + (ev,)] = w2
                    seen[k] = list(hist) + [ev]
                    self.states += 1
                    self.max_depth = max(self.max_depth, len(hist) + 1)
                    frontier.append((list(hist) + [ev], k))
                    if self.sample_trace is None or len(hist) + 1 > len(self.sample_trace):
                        self.sample_trace = list(hist) + [ev]
        return self
