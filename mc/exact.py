"""Exact rational reference arithmetic on float inputs (DESIGN.md refmodel/exact)."""
import math
from fractions import Fraction

import numpy as np

EPS = float(np.finfo(float).eps)


def F(x):
    return Fraction(float(x))


def fvec(v):
    return [Fraction(float(x)) for x in np.asarray(v, dtype=float).ravel()]


def fmat(A):
    A = np.asarray(A, dtype=float)
    return [[Fraction(float(x)) for x in row] for row in A]


def d2_exact(Lf, uf, vf):
    """squared Mahalanobis distance sum_k (sum_j L_kj (u_j - v_j))^2, exactly (Lf: list of rows of Fractions)."""
    diff = [a - b for a, b in zip(uf, vf)]
    s = Fraction(0)
    for row in Lf:
        t = Fraction(0)
        for l, x in zip(row, diff):
            t += l * x
        s += t * t
    return s


def quad_exact(Mf, uf, vf):
    diff = [a - b for a, b in zip(uf, vf)]
    s = Fraction(0)
    for i, row in enumerate(Mf):
        for j, m in enumerate(row):
            s += diff[i] * m * diff[j]
    return s


def sqrt_float(fr):
    """sqrt of a non-negative Fraction, as a float accurate to well below one ulp."""
    if fr <= 0:
        return 0.0
    p, q = fr.numerator, fr.denominator
    # sqrt(p/q) = sqrt(p*q)/q ; scale to get >= 80 significant bits
    n = p * q
    shift = max(0, 160 - n.bit_length())
    shift += shift % 2
    r = math.isqrt(n << shift)
    return float(Fraction(r, q << (shift // 2)))


def to_float(fr):
    return float(fr)


def scale_abs(L, u, v):
    """|| |L| |u - v| ||_2 : the natural scale of the rounding error of a distance evaluation."""
    a = np.abs(np.asarray(L, dtype=float)).dot(np.abs(np.asarray(u, dtype=float) - np.asarray(v, dtype=float)))
    return float(np.sqrt((a * a).sum()))


def dist_tol(L, u, v, c=8.0):
    k, d = np.asarray(L).shape if np.asarray(L).size else (0, len(u))
    return c * (k + d + 2) * EPS * scale_abs(L, u, v)


def matmul_exact(Af, Bf):
    n, m, p = len(Af), len(Bf), len(Bf[0]) if Bf else 0
    return [[sum((Af[i][k] * Bf[k][j] for k in range(m)), Fraction(0)) for j in range(p)] for i in range(n)]


def transpose(Af):
    return [list(r) for r in zip(*Af)] if Af else []


def is_psd_exact(Mf):
    """Exact PSD test of a symmetric rational matrix: all principal minors >= 0 (sizes <= 4 here)."""
    import itertools
    n = len(Mf)
    for r in range(1, n + 1):
        for idx in itertools.combinations(range(n), r):
            if det([[Mf[i][j] for j in idx] for i in idx]) < 0:
                return False
    return True


def det(A):
    n = len(A)
    if n == 1:
        return A[0][0]
    if n == 2:
        return A[0][0] * A[1][1] - A[0][1] * A[1][0]
    A = [row[:] for row in A]
    sign = 1
    d = Fraction(1)
    for c in range(n):
        piv = next((r for r in range(c, n) if A[r][c] != 0), None)
        if piv is None:
            return Fraction(0)
        if piv != c:
            A[c], A[piv] = A[piv], A[c]
            sign = -sign
        d *= A[c][c]
        for r in range(c + 1, n):
            f = A[r][c] / A[c][c]
            if f:
                A[r] = [x - f * y for x, y in zip(A[r], A[c])]
    return sign * d
