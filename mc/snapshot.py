"""Digests of complete concrete object state, and snapshots for detecting mutation of caller data."""
import hashlib
import types

import numpy as np


def _feed(h, o, depth=0):
    if depth > 12:
        h.update(b'<deep>')
        return
    if isinstance(o, np.ndarray):
        h.update(b'nd')
        h.update(str(o.dtype).encode())
        h.update(str(o.shape).encode())
        if o.dtype == object:
            for x in o.ravel():
                _feed(h, x, depth + 1)
        else:
            h.update(np.ascontiguousarray(o).tobytes())
    elif isinstance(o, (np.generic,)):
        h.update(b'ns' + str(o.dtype).encode() + np.asarray(o).tobytes())
    elif isinstance(o, float):
        h.update(b'f' + np.float64(o).tobytes())
    elif isinstance(o, (bool, int, str, bytes, type(None))):
        h.update(repr((type(o).__name__, o)).encode())
    elif isinstance(o, dict):
        h.update(b'{')
        for k in sorted(o, key=repr):
            h.update(repr(k).encode())
            _feed(h, o[k], depth + 1)
        h.update(b'}')
    elif isinstance(o, (list, tuple)):
        h.update(b'[' if isinstance(o, list) else b'(')
        for x in o:
            _feed(h, x, depth + 1)
        h.update(b']')
    elif isinstance(o, (set, frozenset)):
        h.update(b'set')
        for x in sorted(o, key=repr):
            _feed(h, x, depth + 1)
    elif isinstance(o, (types.FunctionType, types.BuiltinFunctionType, types.MethodType)):
        h.update(b'fn' + getattr(o, '__qualname__', repr(o)).encode())
        cl = getattr(o, '__closure__', None)
        if cl:
            for c in cl:
                try:
                    _feed(h, c.cell_contents, depth + 1)
                except ValueError:
                    h.update(b'<empty cell>')
    elif isinstance(o, np.random.RandomState):
        st = o.get_state()
        h.update(b'rs')
        _feed(h, (st[0], st[1], st[2], st[3], st[4]), depth + 1)
    elif hasattr(o, '__dict__'):
        h.update(b'obj' + type(o).__qualname__.encode())
        _feed(h, vars(o), depth + 1)
    else:
        h.update(b'r' + repr(o).encode())


def digest(*objs):
    h = hashlib.sha256()
    for o in objs:
        _feed(h, o)
    return h.hexdigest()[:24]


class Snapshot(object):
    """Deep fingerprint of argument values taken before a call; `changed()` lists what differs afterwards.
    Compares both identity of container slots and the bytes / dtype / shape of every reachable array."""

    def __init__(self, named):
        self.named = named
        self.before = {k: digest(v) for k, v in named.items()}

    def changed(self):
        return [k for k, v in self.named.items() if digest(v) != self.before[k]]
