"""E3: every pseudo-random draw of the library becomes a choice point.

`check_random_state` returns a RandomState (sub)class instance unchanged, so a scripted subclass can be
passed as `random_state` without touching the sources.  `explore` enumerates all answer sequences
depth-first by re-execution from a prefix (CHESS style), optionally bounding the number of deviations
(non-default answers).
"""
import numpy as np


class ScriptOutOfRange(Exception):
    pass


class ScriptedRandomState(np.random.RandomState):
    """Answers draws from `script` (then 0 = first alternative); records (arity, answer) of every draw."""

    def __init__(self, script=()):
        super().__init__(0)
        self.script = list(script)
        self.points = []     # arity of each choice point, in execution order
        self.answers = []

    def _pick(self, n):
        n = int(n)
        if n <= 0:
            raise ValueError('empty range')     # what numpy does for randint(0) / choice([])
        i = len(self.points)
        a = self.script[i] if i < len(self.script) else 0
        if a >= n:
            raise ScriptOutOfRange('answer %d >= arity %d at point %d' % (a, n, i))
        self.points.append(n)
        self.answers.append(a)
        return a

    # the draws used by metric_learn.constraints and SCML
    def randint(self, low, high=None, size=None, dtype=int):
        if high is None:
            low, high = 0, low
        n = int(high) - int(low)
        if size is None:
            return int(low) + self._pick(n)
        out = np.empty(size, dtype=int)
        flat = out.reshape(-1)
        for i in range(flat.size):
            flat[i] = int(low) + self._pick(n)
        return out

    def choice(self, a, size=None, replace=True, p=None):
        assert p is None
        pool = list(range(int(a))) if np.ndim(a) == 0 else list(np.asarray(a))
        if size is None:
            return pool[self._pick(len(pool))]
        k = int(np.prod(size))
        out = []
        for _ in range(k):
            j = self._pick(len(pool))
            out.append(pool[j])
            if not replace:
                pool.pop(j)
        return np.array(out).reshape(size)

    def permutation(self, x):
        pool = list(range(int(x))) if np.ndim(x) == 0 else list(np.asarray(x))
        out = []
        while pool:
            out.append(pool.pop(self._pick(len(pool))))
        return np.array(out)

    def _forbidden(self, *a, **k):
        raise AssertionError('unscripted draw used by the library; extend ScriptedRandomState')

    rand = randn = random_sample = uniform = normal = shuffle = standard_normal = _forbidden


def explore(run, max_dev=None, cap=None):
    """Enumerate every script.  run(rng) executes the implementation with the given ScriptedRandomState
    and returns an observation (or raises).  Yields (script, observation_or_exception).

    Returns through the generator's `stats` attribute is not possible, so the generator yields a final
    ('__stats__', dict) item: executions, nodes (distinct prefixes = states), edges (= transitions),
    complete (False if `cap` stopped it), max_depth, max_dev.
    """
    stack = [[]]
    execs = edges = 0
    maxdepth = 0
    complete = True
    while stack:
        if cap is not None and execs >= cap:
            complete = False
            break
        prefix = stack.pop()
        rng = ScriptedRandomState(prefix)
        try:
            obs = run(rng)
        except ScriptOutOfRange:
            raise
        except Exception as e:   # the implementation's own exception is an observation
            obs = e
        execs += 1
        ans = rng.answers
        if ans[:len(prefix)] != prefix[:len(ans)]:
            raise AssertionError('divergence while replaying prefix')   # hard error (nondeterminism)
        new_from = max(len(prefix) - 1, 0)
        edges += max(len(ans) - new_from, 0)
        maxdepth = max(maxdepth, len(ans))
        dev = sum(1 for a in prefix if a)
        for i in range(len(prefix), len(rng.points)):
            if max_dev is not None and dev + 1 > max_dev:
                break
            for alt in range(rng.points[i] - 1, 0, -1):
                stack.append(list(ans[:i]) + [alt])
        yield list(ans), obs
    yield '__stats__', dict(executions=execs, transitions=edges, states=edges + 1, complete=complete,
                            max_depth=maxdepth, max_dev=max_dev)
