"""Independent solver for  min_{Theta > 0}  tr(S Theta) - logdet Theta + alpha * ||Theta||_{1,off}  (ADMM), with a KKT self-check."""
import numpy as np


def objective(S, Theta, alpha):
    sign, logdet = np.linalg.slogdet(Theta)
    if sign <= 0:
        return np.inf
    off = np.abs(Theta).sum() - np.abs(np.diag(Theta)).sum()
    return float(np.trace(S.dot(Theta)) - logdet + alpha * off)


def solve(S, alpha, rho=1.0, iters=50000, tol=1e-13):
    d = S.shape[0]
    Z = np.diag(1.0 / np.diag(S))
    U = np.zeros((d, d))
    for it in range(iters):
        lam, Q = np.linalg.eigh(rho * (Z - U) - S)
        th = (lam + np.sqrt(lam ** 2 + 4 * rho)) / (2 * rho)
        Theta = (Q * th).dot(Q.T)
        Zold = Z
        A = Theta + U
        Z = np.sign(A) * np.maximum(np.abs(A) - alpha / rho, 0)
        Z[np.diag_indices(d)] = np.diag(A)
        U = U + Theta - Z
        r = np.abs(Theta - Z).max()
        s = rho * np.abs(Z - Zold).max()
        if r < tol and s < tol:
            break
    return Theta, Z, it + 1


def kkt_violation(S, Theta, alpha):
    """max deviation from  S - Theta^-1 + alpha * G = 0,  G_ij = sign(Theta_ij) (|G_ij| <= 1 where Theta_ij = 0), G_ii = 0."""
    R = S - np.linalg.inv(Theta)
    d = S.shape[0]
    worst = 0.0
    scale = max(np.abs(Theta).max(), 1e-300)
    for i in range(d):
        for j in range(d):
            if i == j:
                worst = max(worst, abs(R[i, j]))
            elif abs(Theta[i, j]) > 1e-9 * scale:
                worst = max(worst, abs(R[i, j] + alpha * np.sign(Theta[i, j])))
            else:
                worst = max(worst, max(abs(R[i, j]) - alpha, 0))
    return worst
