"""Reference for the basis SCML_Supervised(basis='lda') generates (documented construction, re-stated):

  * region centres: k-means on all points, ceil(n_basis / (2 * num_eig)) clusters, num_eig = min(n_classes - 1, n_features),
    seeded with the estimator's random_state;
  * for each of the two neighbourhood scales (10 and 20; 20 and 50 beyond 50 features) and each centre: the local sample is, for
    EVERY class, its min(class size, scale) members nearest to the centre;
  * the basis rows are the unit-normalised LDA directions of each local sample, scale by scale, centre by centre, cut at n_basis.

Neighbours are ranked by brute force here (the library uses a NearestNeighbors index).  Returns (basis, ambiguous) where
`ambiguous` says that some neighbour ranking has a near tie at the cut (the case is then not judged).
"""
import numpy as np
from sklearn.cluster import KMeans
from sklearn.discriminant_analysis import LinearDiscriminantAnalysis


def reference(X, y, n_basis, random_state):
    X = np.asarray(X, dtype=float)
    labels, counts = np.unique(y, return_counts=True)
    d = X.shape[1]
    num_eig = min(len(labels) - 1, d)
    n_clusters = int(np.ceil(n_basis / (2.0 * num_eig)))
    centres = KMeans(n_clusters=n_clusters, n_init=10, random_state=random_state, algorithm='elkan').fit(X).cluster_centers_
    scales = [20, 50] if d > 50 else [10, 20]
    ambiguous = False
    rows = []
    for scale in scales:
        for c in range(n_clusters):
            local = []
            for lab, cnt in zip(labels, counts):
                members = np.flatnonzero(y == lab)
                dist = np.sqrt(((X[members] - centres[c]) ** 2).sum(1))
                order = np.argsort(dist, kind='stable')
                k = min(int(cnt), scale)
                if k < len(order) and dist[order[k]] - dist[order[k - 1]] <= 1e-9 * max(dist[order[k]], 1e-300):
                    ambiguous = True
                local.extend(members[order[:k]].tolist())
            local = np.array(local)
            sc = LinearDiscriminantAnalysis().fit(X[local], y[local]).scalings_.T
            sc = sc / np.sqrt((sc ** 2).sum(1))[:, None]
            rows.append(sc[:num_eig])
    return np.vstack(rows)[:n_basis], ambiguous
