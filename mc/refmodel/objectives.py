"""Reference objectives and analytic gradients of NCA, MLKR and LMNN (documented formulas, plain loops, stable softmax)."""
import numpy as np


def _softmax_rows(D):
    """s_ij = exp(-D_ij) / sum_{m != i} exp(-D_im), s_ii = 0 (shifted by the row minimum for stability)."""
    n = len(D)
    S = np.zeros((n, n))
    for i in range(n):
        idx = [j for j in range(n) if j != i]
        m = min(D[i, j] for j in idx)
        e = np.array([np.exp(-(D[i, j] - m)) for j in idx])
        S[i, idx] = e / e.sum()
    return S


def nca(L, X, y):
    """(f, grad) of f(L) = sum_i sum_{j != i, y_j = y_i} p_ij  (to be MAXIMISED)."""
    Z = X.dot(L.T)
    n = len(X)
    D = ((Z[:, None] - Z[None]) ** 2).sum(-1)
    P = _softmax_rows(D)
    f = 0.0
    G = np.zeros((X.shape[1], X.shape[1]))
    A = np.zeros_like(G)          # sum of the absolute contributions: natural scale of the rounding error of G
    for i in range(n):
        pi = sum(P[i, j] for j in range(n) if j != i and y[j] == y[i])
        f += pi
        for j in range(n):
            if j == i:
                continue
            xij = X[i] - X[j]
            o = np.outer(xij, xij)
            G += pi * P[i, j] * o
            A += pi * P[i, j] * np.abs(o)
            if y[j] == y[i]:
                G -= P[i, j] * o
                A += P[i, j] * np.abs(o)
    return f, 2 * L.dot(G), 2 * np.abs(L).dot(A)


def mlkr(L, X, y):
    """(cost, grad) of sum_i (yhat_i - y_i)^2 with leave-one-out Gaussian kernel regression."""
    Z = X.dot(L.T)
    n = len(X)
    D = ((Z[:, None] - Z[None]) ** 2).sum(-1)
    S = _softmax_rows(D)
    yhat = S.dot(y)
    cost = float(((yhat - y) ** 2).sum())
    G = np.zeros((X.shape[1], X.shape[1]))
    A = np.zeros_like(G)
    for i in range(n):
        for j in range(n):
            if j == i:
                continue
            xij = X[i] - X[j]
            G += (yhat[i] - y[i]) * (yhat[i] - y[j]) * S[i, j] * np.outer(xij, xij)
            A += abs((yhat[i] - y[i]) * (yhat[i] - y[j])) * S[i, j] * np.abs(np.outer(xij, xij))
    return cost, 4 * L.dot(G), 4 * np.abs(L).dot(A)


def lmnn_targets(X, y, k):
    """for each i: (must, may) sets of valid k nearest same-class Euclidean neighbours (ties accepted)."""
    n = len(X)
    D = ((X[:, None] - X[None]) ** 2).sum(-1)
    out = []
    for i in range(n):
        same = [j for j in range(n) if j != i and y[j] == y[i]]
        ds = sorted((D[i, j], j) for j in same)
        kth = ds[k - 1][0]
        out.append(({j for dd, j in ds if dd < kth * (1 - 1e-12)}, {j for dd, j in ds if dd <= kth * (1 + 1e-12)}))
    return out


def lmnn(L, X, y, targets, reg):
    """(objective, grad, min hinge margin): reg * pull + (1 - reg) * push over the given target neighbours."""
    Z = X.dot(L.T)
    n, d = X.shape
    D = ((Z[:, None] - Z[None]) ** 2).sum(-1)
    pull = 0.0
    push = 0.0
    Gp = np.zeros((d, d))
    Gh = np.zeros((d, d))
    Ah = np.zeros((d, d))
    margin = np.inf
    for i in range(n):
        for j in targets[i]:
            xij = X[i] - X[j]
            pull += D[i, j]
            Gp += np.outer(xij, xij)
            for l in range(n):
                if y[l] == y[i]:
                    continue
                h = 1.0 + D[i, j] - D[i, l]
                margin = min(margin, abs(h))
                if h > 0:
                    push += h
                    xil = X[i] - X[l]
                    Gh += np.outer(xij, xij) - np.outer(xil, xil)
                    Ah += np.abs(np.outer(xij, xij)) + np.abs(np.outer(xil, xil))
    obj = reg * pull + (1 - reg) * push
    scale = 2 * np.abs(L).dot(reg * np.abs(Gp) + (1 - reg) * Ah)
    return obj, 2 * L.dot(reg * Gp + (1 - reg) * Gh), margin, scale
