"""Reference solution of ITML's documented program (Davis et al. 2007, Algorithm 1 with slack):

    min  D_ld(M, M0) + gamma * D_ld(diag(xi), diag(xi0))
    s.t. v_i^T M v_i <= xi_i (similar pairs, xi0 = u),  v_i^T M v_i >= xi_i (dissimilar pairs, xi0 = l)

solved by cyclic Bregman projections in the order "similar pairs, then dissimilar pairs", run far beyond the library's
own stopping rule, and then CERTIFIED by its own KKT system (cone identity, slack relation, complementary slackness):
the optimum is unique (strictly convex objective), so a certified reference pins M down without looking at any local
variable of the implementation.
"""
import numpy as np


def solve(M0, pos_v, neg_v, u, l, gamma, sweeps=20000, tol=1e-14):
    A = np.array(M0, dtype=float)
    npos, nneg = len(pos_v), len(neg_v)
    lam = np.zeros(npos + nneg)
    pb = np.full(npos, float(u))
    nb = np.full(nneg, float(l))
    gp = gamma / (gamma + 1.0)
    for _ in range(sweeps):
        old = lam.copy()
        for i, v in enumerate(pos_v):
            w = v.dot(A).dot(v)
            a = min(lam[i], gp * (1.0 / w - 1.0 / pb[i]))
            lam[i] -= a
            beta = a / (1 - a * w)
            pb[i] = 1.0 / (1.0 / pb[i] + a / gamma)
            Av = A.dot(v)
            A = A + beta * np.outer(Av, Av)
        for i, v in enumerate(neg_v):
            w = v.dot(A).dot(v)
            a = min(lam[npos + i], gp * (1.0 / nb[i] - 1.0 / w))
            lam[npos + i] -= a
            beta = -a / (1 + a * w)
            nb[i] = 1.0 / (1.0 / nb[i] - a / gamma)
            Av = A.dot(v)
            A = A + beta * np.outer(Av, Av)
        n1, n2 = np.abs(lam).sum(), np.abs(old).sum()
        if n1 == 0 or (np.abs(old - lam).sum() / max(n1, 1e-300)) < tol:
            break
    A = (A + A.T) / 2
    return A, lam, pb, nb


def certified(M0inv, A, lam, pb, nb, pos_v, neg_v, u, l, gamma):
    """KKT residuals of the reference itself: (cone identity, slack relation, complementary slackness gap, growth)."""
    npos = len(pos_v)
    d = A.shape[0]
    S = np.zeros((d, d))
    for x, v in zip(lam[:npos], pos_v):
        S += x * np.outer(v, v)
    for x, v in zip(lam[npos:], neg_v):
        S -= x * np.outer(v, v)
    Ainv = np.linalg.inv(A)
    r_id = np.abs(Ainv - M0inv - S).max() / max(np.abs(Ainv).max(), np.abs(M0inv).max())
    r_sl = 0.0
    if npos:
        r_sl = max(r_sl, np.abs(1.0 / pb - (1.0 / u - lam[:npos] / gamma)).max() * u)
    if len(neg_v):
        r_sl = max(r_sl, np.abs(1.0 / nb - (1.0 / l + lam[npos:] / gamma)).max() * l)
    wp = np.einsum('ij,jk,ik->i', pos_v, A, pos_v) if npos else np.zeros(0)
    wn = np.einsum('ij,jk,ik->i', neg_v, A, neg_v) if len(neg_v) else np.zeros(0)
    gap = 0.0
    top = max(lam.max(), 1e-300)
    for i in range(npos):
        tight = abs(wp[i] - pb[i]) / pb[i]
        ok = (lam[i] <= 1e-12 * top and wp[i] <= pb[i] * (1 + 1e-7)) or tight <= 1e-7
        gap = max(gap, 0 if ok else tight)
    for i in range(len(neg_v)):
        tight = abs(wn[i] - nb[i]) / nb[i]
        ok = (lam[npos + i] <= 1e-12 * top and wn[i] >= nb[i] * (1 - 1e-7)) or tight <= 1e-7
        gap = max(gap, 0 if ok else tight)
    allv = np.vstack([pos_v, neg_v])
    growth = np.abs(lam).max() * (allv ** 2).sum(1).max() / np.abs(M0inv).max()
    return r_id, r_sl, gap, growth
