"""Reference objective and analytic gradient of LSML (documented objective, plain loops)."""
import numpy as np


def objective(M, prior_inv, vab, vcd, w):
    loss = 0.0
    for a, c, wi in zip(vab, vcd, w):
        dab, dcd = a.dot(M).dot(a), c.dot(M).dot(c)
        if dab > dcd:
            loss += wi * (np.sqrt(dab) - np.sqrt(dcd)) ** 2
    sign, logdet = np.linalg.slogdet(M)
    return loss + np.trace(M.dot(prior_inv)) - logdet


def gradient(M, prior_inv, vab, vcd, w):
    G = prior_inv - np.linalg.inv(M)
    for a, c, wi in zip(vab, vcd, w):
        dab, dcd = a.dot(M).dot(a), c.dot(M).dot(c)
        if dab > dcd:
            G = G + wi * ((1 - np.sqrt(dcd / dab)) * np.outer(a, a) + (1 - np.sqrt(dab / dcd)) * np.outer(c, c))
    return G


def min_margin(M, vab, vcd):
    """smallest relative hinge margin |dab - dcd| / max(dab, dcd): the objective is non-smooth where it vanishes."""
    m = np.inf
    for a, c in zip(vab, vcd):
        dab, dcd = a.dot(M).dot(a), c.dot(M).dot(c)
        m = min(m, abs(dab - dcd) / max(dab, dcd, 1e-300))
    return m
