"""Plain-loop replay of SCML's documented stochastic dual-averaging scheme, driven by a given draw table."""
import numpy as np


def dist_diff(triplets, basis):
    """triplets: formed (n, 3, d).  dd[t, i] = (b_i.(a-b))^2 - (b_i.(a-c))^2."""
    n = len(triplets)
    dd = np.zeros((n, len(basis)))
    for t in range(n):
        a, b, c = triplets[t]
        for i, bi in enumerate(basis):
            dd[t, i] = bi.dot(a - b) ** 2 - bi.dot(a - c) ** 2
    return dd


def replay(dd, draws, beta, gamma, output_iter, batch_size, delta=0.001):
    """returns (best_w, best_obj, checkpoints[(iter, obj, w)], min_margin)"""
    n, nb = dd.shape
    w = np.zeros(nb)
    avg = np.zeros(nb)
    ada = np.zeros(nb)
    best_obj, best_w = np.inf, None
    cps = []
    margin = np.inf
    for it in range(len(draws)):
        idx = draws[it]
        g = np.zeros(nb)
        for t in idx:
            s = 1.0 + dd[t].dot(w)
            margin = min(margin, abs(s))
            if s > 0:
                g += dd[t]
        g /= batch_size
        avg = (it * avg + g) / (it + 1)
        ada = np.sqrt(ada ** 2 + g ** 2)
        w = -(it + 1) / (gamma * (delta + ada)) * np.minimum(avg + beta, 0)
        if (it + 1) % output_iter == 0:
            obj = beta * w.sum()
            for t in range(n):
                s = 1.0 + dd[t].dot(w)
                margin = min(margin, abs(s))
                if s > 0:
                    obj += s / n
            cps.append((it + 1, obj, w.copy()))
            if obj < best_obj:
                best_obj, best_w = obj, w.copy()
    # ties / near-ties between checkpoint objectives make the argmin ambiguous
    objs = sorted(o for _, o, _ in cps)
    gap = min((b - a for a, b in zip(objs, objs[1:])), default=np.inf)
    return best_w, best_obj, cps, margin, gap
