"""Independent construction of the prior / initial Mahalanobis matrices named by the option values."""
import numpy as np
from sklearn.datasets import make_spd_matrix


def prior_matrix(option, tuples, d, seed=None):
    """(M0, M0^-1) for option in {'identity', 'covariance', 'random', ndarray}; tuples: formed training tuples."""
    if isinstance(option, np.ndarray):
        M0 = option.astype(float)
        return M0, np.linalg.inv(M0)
    if option == 'identity':
        return np.eye(d), np.eye(d)
    if option == 'covariance':
        X = np.unique(np.vstack(tuples), axis=0) if np.ndim(tuples) == 3 else np.asarray(tuples)
        mu = X.mean(0)
        C = (X - mu).T.dot(X - mu) / (len(X) - 1)
        return np.linalg.inv(C), C
    if option == 'random':
        M0 = make_spd_matrix(d, random_state=np.random.RandomState(seed))
        return M0, np.linalg.inv(M0)
    raise KeyError(option)
