"""Engine self-test run by MANIFEST.setup_cmd: the explorers enumerate known spaces completely."""
from .rng import explore


def main():
    # all answer sequences of: two draws of arity 3, then (if first == second) one draw of arity 2
    def run(rng):
        a = rng.randint(3)
        b = rng.randint(3)
        c = rng.randint(2) if a == b else None
        return (a, b, c)
    seen = set()
    st = None
    for script, obs in explore(run):
        if script == '__stats__':
            st = obs
        else:
            seen.add(obs)
    assert len(seen) == 6 + 3 * 2 and st['executions'] == 12 and st['complete'], (len(seen), st)
    # deviation bound 1: default path + single deviations
    n = sum(1 for s, o in explore(run, max_dev=1) if s != '__stats__')
    assert n == 1 + 2 + 2 + 1, n
    print('selftest ok')
