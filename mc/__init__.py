"""Bounded-exhaustive / explicit-state exploration engine for metric-learn (see DESIGN.md section 3)."""
