"""Common driver: enumerate cases, run them on a process pool, aggregate, match known findings,
write evidence and replay files, print VIOLATION / KNOWN-FINDING lines, set the exit status.

A check module provides
  PID, LEVEL ('exploration' | 'model_checking'), RULE (str), ASSUMPTIONS (list of str)
  cases(tier, seed) -> list of (case_id, spec)          spec: small picklable object
  run_case(spec)    -> dict with optional keys
        evals        int   executions of the implementation performed by this case
        sigs         iterable of hashable behaviour signatures of the NON-TRIVIAL evaluations
        viol         list of violation dicts {site, clause, msg, triggers:[...], detail:{...}}
        states, transitions   ints (explicit-state / trajectory checks)
        sample       a JSON-able description of what the case looked like
        headroom     {label: worst residual / tolerance}
        ambiguous    int  (evaluations not judged because a branch margin was under the guard)
        stats        {name: number} summed over cases
  finalize(results, tier, seed) -> list of extra violation dicts   (optional, cross-case oracles)
"""
import argparse
import hashlib
import json
import multiprocessing as mp
import os
import random
import subprocess
import sys
import time
import traceback

from . import env

EVIDENCE_DIR = os.path.join(env.VERIF_DIR, 'evidence')
REPLAY_DIR = (os.path.join(env.VERIF_DIR, 'replays') if env.REPO == '/repo'
              else os.path.join(os.environ.get('VERIF_SCRATCH', '/var/tmp/verif_scratch'), 'replays'))
FINDINGS = os.path.join(env.VERIF_DIR, 'known_findings.json')
SCHEMA = '/root/.vp/EVIDENCE.schema.json'

_MOD = None


def _init_worker(modname):
    global _MOD
    import importlib
    import warnings
    _MOD = importlib.import_module(modname)
    warnings.simplefilter('ignore')


def _run_one(item):
    cid, spec = item
    t0 = time.time()
    try:
        res = _MOD.run_case(spec) or {}
    except MemoryError:
        res = {'internal_error': traceback.format_exc()}
    except Exception as e:
        # An exception that travelled through the library under test out of a call the driver did not expect to fail
        # (every such call succeeds on the tree the checks were built on): the library refused or crashed on a
        # well-formed call, which every property that speaks about the outcome of that call forbids.  A crash that never
        # entered the library is an internal error of the harness, never a VIOLATION.
        lib = os.path.join(os.path.realpath(env.REPO), 'metric_learn') + os.sep
        frames = [f for f in traceback.extract_tb(e.__traceback__) if os.path.realpath(f.filename).startswith(lib)]
        if frames:
            f = frames[-1]
            res = {'evals': 0, 'sigs': [], 'viol': [{
                'site': '%s:%s' % (os.path.basename(f.filename), f.name), 'clause': 'raises',
                'msg': 'a call that the driver expects to succeed raised %s: %s (in %s line %d)'
                       % (type(e).__name__, str(e)[:160], os.path.basename(f.filename), f.lineno),
                'triggers': ['uncaught_in_driver'], 'detail': {'traceback_tail': traceback.format_exc()[-1500:]}}]}
        else:
            res = {'internal_error': traceback.format_exc()}
    res['case_id'] = cid
    res['wall'] = time.time() - t0
    return res


def jsonable(o):
    import numpy as np
    if isinstance(o, dict):
        return {str(k): jsonable(v) for k, v in o.items()}
    if isinstance(o, (list, tuple, set, frozenset)):
        return [jsonable(v) for v in o]
    if isinstance(o, np.ndarray):
        return jsonable(o.tolist())
    if isinstance(o, (np.integer,)):
        return int(o)
    if isinstance(o, (np.floating,)):
        return float(o)
    if isinstance(o, (np.bool_,)):
        return bool(o)
    if isinstance(o, float):
        if o != o or o in (float('inf'), float('-inf')):
            return repr(o)
        return o
    if isinstance(o, (str, int, bool)) or o is None:
        return o
    return repr(o)


def load_findings(pid):
    if not os.path.exists(FINDINGS):
        return []
    data = json.load(open(FINDINGS))
    return [k for k in data.get('known', []) if k['property'] == pid]


def match_known(v, known):
    """A violation is a known finding only if call site AND trigger predicate both match."""
    for k in known:
        if k['site'] == v.get('site') and k['trigger'] in v.get('triggers', []):
            return k
    return None


def replay_file(path, modname=None):
    """Re-execute exactly the case (or, for explicit-state checks, exactly the call history) stored in a replay file, without
    any exploration.  Returns the list of violations that are not known findings.  Used by `./check Cxx --replay` and by
    the plain pytest file written next to every replay file."""
    import importlib
    rep = json.load(open(path))
    if modname is None:
        modname = rep['module']
    mod = importlib.import_module(modname)
    _init_worker(modname)
    if hasattr(mod, 'replay_violation') and rep.get('violation', {}).get('detail', {}).get('history'):
        viol = mod.replay_violation(rep)
    else:
        spec = mod.spec_from_json(rep['spec']) if hasattr(mod, 'spec_from_json') else rep['spec']
        res = _run_one((rep['case_id'], spec))
        if res.get('internal_error'):
            raise RuntimeError(res['internal_error'])
        viol = res.get('viol', [])
    known = load_findings(mod.PID)
    return [v for v in viol if not match_known(v, known)]


def main(modname):
    import importlib
    mod = importlib.import_module(modname)
    ap = argparse.ArgumentParser()
    ap.add_argument('--tier', default=os.environ.get('VERIF_TIER', 'quick'), choices=['quick', 'thorough'])
    ap.add_argument('--seed', type=int, default=int(os.environ.get('VERIF_SEED', '0') or 0))
    ap.add_argument('--replay')
    ap.add_argument('--jobs', type=int, default=int(os.environ.get('VERIF_JOBS', '16')))
    ap.add_argument('--only', help='substring filter on case ids (debugging; evidence is marked partial)')
    ap.add_argument('--time-cap', type=float, default=float(os.environ.get('VERIF_TIME_CAP', '0') or 0))
    args = ap.parse_args()
    pid = mod.PID
    t0 = time.time()

    if args.replay:
        try:
            bad = replay_file(args.replay, modname)
        except RuntimeError as e:
            print(e)
            sys.exit(2)
        for v in bad:
            print('VIOLATION property=%s replay=%s\n  site=%s clause=%s :: %s' % (pid, args.replay, v.get('site'), v.get('clause'), v.get('msg')))
        print('replay: %d violation(s)' % len(bad))
        sys.exit(1 if bad else 0)

    cap = args.time_cap or getattr(mod, 'TIME_CAP', {}).get(args.tier, 0)
    cases = list(mod.cases(args.tier, args.seed))
    if args.only:
        cases = [c for c in cases if args.only in c[0]]
    n_cases = len(cases)
    order = list(range(n_cases))
    random.Random(args.seed).shuffle(order)          # VERIF_SEED permutes the work order only
    if hasattr(mod, 'cost'):
        order.sort(key=lambda i: -mod.cost(cases[i][1]))  # longest first for load balance (stable w.r.t. shuffle)
    work = [cases[i] for i in order]

    results = []
    cap_hit = False
    jobs = max(1, min(args.jobs, n_cases))
    chunk = max(1, min(64, n_cases // (jobs * 8) or 1))
    if jobs == 1:
        _init_worker(modname)
        for it in work:
            results.append(_run_one(it))
            if cap and time.time() - t0 > cap:
                cap_hit = True
                break
    else:
        ctx = mp.get_context('fork')
        pool = ctx.Pool(jobs, initializer=_init_worker, initargs=(modname,))
        try:
            for r in pool.imap_unordered(_run_one, work, chunksize=chunk):
                results.append(r)
                if cap and time.time() - t0 > cap:
                    cap_hit = True
                    break
        finally:
            pool.terminate()
            pool.join()

    if os.environ.get('VERIF_DEBUG'):
        for r in sorted(results, key=lambda r: -r['wall'])[:12]:
            print('  slow case %.1fs %s' % (r['wall'], r['case_id']))
        print('  total case wall %.1fs' % sum(r['wall'] for r in results))
    internal = [r for r in results if r.get('internal_error')]
    if internal:
        print('INTERNAL ERROR in %d case(s); first: case=%s\n%s' % (len(internal), internal[0]['case_id'],
                                                                     internal[0]['internal_error']))
        sys.exit(2)

    viols = []
    for r in results:
        for v in r.get('viol', []):
            v = dict(v)
            v['case_id'] = r['case_id']
            viols.append(v)
    if hasattr(mod, 'finalize') and not cap_hit and not args.only:
        for v in mod.finalize(results, args.tier, args.seed) or []:
            v = dict(v)
            v.setdefault('case_id', 'finalize')
            viols.append(v)

    known = load_findings(pid)
    unknown, known_hits = [], {}
    for v in viols:
        k = match_known(v, known)
        if k is None:
            unknown.append(v)
        else:
            known_hits.setdefault(k['id'], [k, 0])[1] += 1

    spec_by_id = dict(cases)
    os.makedirs(REPLAY_DIR, exist_ok=True)
    printed = 0
    seen_keys = set()
    for v in unknown:
        key = (v.get('site'), v.get('clause'))
        if key in seen_keys and printed >= 5:
            continue
        if printed >= 25:
            break
        seen_keys.add(key)
        h = hashlib.sha1((pid + '|' + v['case_id'] + '|' + str(v.get('site')) + '|' + str(v.get('clause'))).encode()).hexdigest()[:12]
        path = os.path.join(REPLAY_DIR, '%s_%s.json' % (pid, h))
        spec = spec_by_id.get(v['case_id'])
        if hasattr(mod, 'spec_to_json'):
            spec = mod.spec_to_json(spec)
        json.dump(jsonable({'property': pid, 'module': modname, 'case_id': v['case_id'], 'spec': spec, 'violation': v,
                            'replay_cmd': './check %s --replay %s' % (pid, path)}), open(path, 'w'), indent=1)
        # a plain unit test that replays the artefact without the explorer
        with open(path[:-5] + '_test.py', 'w') as tf:
            tf.write('"""Replays %s (property %s, case %s) on the tree under $VERIF_REPO (default /repo); fails while the violation is present."""\n'
                     'import sys\nsys.path.insert(0, %r)\nfrom mc import runner\n\n\ndef test_replay():\n'
                     '    assert runner.replay_file(%r) == []\n' % (os.path.basename(path), pid, v['case_id'], env.VERIF_DIR, path))
        print('VIOLATION property=%s replay=%s' % (pid, path))
        print('  case=%s site=%s clause=%s :: %s' % (v['case_id'], v.get('site'), v.get('clause'), v.get('msg')))
        printed += 1
    for kid, (k, n) in sorted(known_hits.items()):
        print('KNOWN-FINDING: property=%s %s [%s; %d matching case(s)]' % (pid, k['what'], kid, n))

    # ---- evidence
    sigs = set()
    for r in results:
        for s in r.get('sigs', ()) or ():
            sigs.add(s if isinstance(s, str) else repr(s))
    evals = sum(int(r.get('evals', 0)) for r in results)
    states = sum(int(r.get('states', 0)) for r in results)
    trans = sum(int(r.get('transitions', 0)) for r in results)
    stats = {}
    headroom = {}
    for r in results:
        for k, x in (r.get('stats') or {}).items():
            stats[k] = stats.get(k, 0) + x
        for k, x in (r.get('headroom') or {}).items():
            headroom[k] = max(headroom.get(k, 0.0), float(x))
    allsamp = [r['sample'] for r in sorted(results, key=lambda r: r['case_id']) if r.get('sample') is not None]
    samples = [allsamp[(i * (len(allsamp) - 1)) // 5] for i in range(6)] if len(allsamp) > 6 else allsamp
    if not samples:
        samples = [c[0] for c in cases[:5]]
    cov = {
        'evaluations': evals,
        'distinct_nontrivial': len(sigs),
        'rule': mod.RULE,
        'samples': samples,
        'exhaustive': (not cap_hit) and (not args.only) and bool(getattr(mod, 'EXHAUSTIVE', True)),
        'cases': n_cases,
        'cases_completed': len(results),
        'time_cap_hit': cap_hit,
        'ambiguous_not_judged': sum(int(r.get('ambiguous', 0)) for r in results),
        'tolerance_headroom_worst_residual_over_tolerance': headroom,
        'stats': stats,
        'known_findings_matched': {k: n for k, (_, n) in known_hits.items()},
        'repo': env.REPO,
    }
    if mod.LEVEL == 'model_checking':
        cov['states'] = states
        cov['transitions'] = trans
        cov['traces_validated_against_impl'] = trans   # every transition is an execution of the implementation
    if hasattr(mod, 'BOUNDS'):
        cov['bounds'] = mod.BOUNDS.get(args.tier, mod.BOUNDS) if isinstance(mod.BOUNDS, dict) else mod.BOUNDS
    ev = {
        'property_id': pid, 'tier': args.tier, 'seed': args.seed, 'level': mod.LEVEL,
        'coverage': jsonable(cov),
        'assumptions': list(getattr(mod, 'ASSUMPTIONS', [])),
        'wall_s': round(time.time() - t0, 3),
        'violations': len(unknown),
    }
    os.makedirs(EVIDENCE_DIR, exist_ok=True)
    epath = os.path.join(EVIDENCE_DIR, pid + '.json')
    if env.REPO != '/repo':      # mutant / scratch-tree runs never touch the committed evidence or replays
        epath = os.path.join(os.environ.get('VERIF_SCRATCH', '/var/tmp/verif_scratch'), pid + '.json')
        os.makedirs(os.path.dirname(epath), exist_ok=True)
    if not args.only:
        json.dump(ev, open(epath, 'w'), indent=1)
        if not validate_evidence(epath) and not unknown:
            sys.exit(2)        # (with violations found, the VIOLATION verdict takes precedence over thin evidence)
    print('%s tier=%s seed=%d cases=%d/%d evaluations=%d distinct_nontrivial=%d%s violations=%d known=%d wall=%.1fs%s'
          % (pid, args.tier, args.seed, len(results), n_cases, evals, len(sigs),
             (' states=%d transitions=%d' % (states, trans)) if mod.LEVEL == 'model_checking' else '',
             len(unknown), sum(n for _, n in known_hits.values()), time.time() - t0,
             ' TIME-CAP-HIT' if cap_hit else ''))
    sys.exit(1 if unknown else 0)


def validate_evidence(path):
    """Schema validation by the tooling venv (jsonschema is not in /venv); failure is an internal error."""
    code = ("import json,sys,jsonschema;"
            "jsonschema.validate(json.load(open(sys.argv[1])), json.load(open(sys.argv[2])))")
    try:
        r = subprocess.run(['python3-vt', '-c', code, path, SCHEMA], capture_output=True, text=True, timeout=60)
    except (OSError, subprocess.TimeoutExpired):
        return True
    if r.returncode != 0:
        print('INTERNAL: evidence does not validate: ' + r.stderr.strip().splitlines()[-1][:300])
        return False
    return True
