"""The 17 estimators: construction with fast deterministic hyper-parameters, training arguments per kind,
documented option products (DESIGN.md section 4, C(estimator))."""
import warnings

import numpy as np

import metric_learn as ml
from . import data

ALL = ['Covariance', 'LFDA', 'LMNN', 'NCA', 'MLKR', 'RCA', 'RCA_Supervised', 'ITML', 'ITML_Supervised', 'MMC',
       'MMC_Supervised', 'SDML', 'SDML_Supervised', 'LSML', 'LSML_Supervised', 'SCML', 'SCML_Supervised']
KIND = {'Covariance': 'unsup', 'LFDA': 'class', 'LMNN': 'class', 'NCA': 'class', 'MLKR': 'reg', 'RCA': 'chunks',
        'ITML': 'pairs', 'MMC': 'pairs', 'SDML': 'pairs', 'LSML': 'quads', 'SCML': 'triplets'}
for _n in ALL:
    if _n.endswith('_Supervised'):
        KIND[_n] = 'class'
TUPLE_SIZE = {'pairs': 2, 'triplets': 3, 'quads': 4}
PAIRS = ['ITML', 'MMC', 'SDML']


def cls(name):
    return getattr(ml, name)


def sdml_balance(ds, n_neg=None):
    """balance_param small enough that M0^-1 + balance * sum y v v^T stays positive definite for ANY pair set
    drawn from the data (lambda_max of the negative part <= n_neg * max squared distance)."""
    X = ds.X
    D2 = ((X[:, None] - X[None]) ** 2).sum(-1).max()
    n_neg = n_neg or int((ds.ypairs == -1).sum())
    lam = 1.0 / np.linalg.eigvalsh(np.cov(X, rowvar=False)).max()     # smallest eigenvalue of a covariance prior^-1
    return float(2.0 ** np.floor(np.log2(0.5 * min(1.0, lam) / (n_neg * D2))))


def base_params(name, ds):
    n_con = 30
    p = {
        'Covariance': {},
        'LFDA': {'k': 2},
        'LMNN': {'n_neighbors': 2, 'max_iter': 40, 'learn_rate': 1e-6},
        'NCA': {'max_iter': 20},
        'MLKR': {'max_iter': 20},
        'RCA': {},
        'RCA_Supervised': {'n_chunks': int(sum(s // 2 for s in ds.sizes)) - 1, 'chunk_size': 2, 'random_state': 0},
        'ITML': {'max_iter': 200},
        'ITML_Supervised': {'max_iter': 200, 'n_constraints': n_con, 'random_state': 0},
        'MMC': {'max_iter': 30},
        'MMC_Supervised': {'max_iter': 30, 'n_constraints': n_con, 'random_state': 0},
        'SDML': {'prior': 'identity', 'balance_param': sdml_balance(ds), 'sparsity_param': 0.01},
        'SDML_Supervised': {'prior': 'identity', 'balance_param': sdml_balance(ds, n_con), 'sparsity_param': 0.01,
                            'n_constraints': n_con, 'random_state': 0},
        'LSML': {},
        'LSML_Supervised': {'n_constraints': n_con, 'random_state': 0},
        'SCML': {'n_basis': 4 * ds.d, 'max_iter': 600, 'output_iter': 150, 'batch_size': 5, 'gamma': 0.05,
                 'random_state': 0},
        'SCML_Supervised': {'k_genuine': 2, 'k_impostor': 3, 'n_basis': 2 * ds.d + 2, 'max_iter': 600,
                            'output_iter': 150, 'batch_size': 5, 'gamma': 0.05, 'random_state': 0},
    }[name]
    return dict(p)


def train_args(name, ds, form='formed'):
    """Positional fit arguments.  form='formed' -> points/tuples; 'index' -> indices (use with preprocessor=ds.X)."""
    k = KIND[name]
    X = ds.X if form == 'formed' else np.arange(len(ds.X))
    if k == 'unsup':
        return (X,)
    if k == 'class':
        return (X, ds.y)
    if k == 'reg':
        return (X, ds.yreg)
    if k == 'chunks':
        return (X, ds.chunks)
    if k == 'pairs':
        return ((ds.pairs if form == 'formed' else ds.pairs_idx), ds.ypairs)
    if k == 'quads':
        return ((ds.quads if form == 'formed' else ds.quads_idx),)
    if k == 'triplets':
        return ((ds.trip if form == 'formed' else ds.trip_idx),)
    raise KeyError(k)


def make(name, ds, **over):
    p = base_params(name, ds)
    p.update(over)
    with warnings.catch_warnings():
        warnings.simplefilter('ignore')
        return cls(name)(**p)


def fit(name, ds, form='formed', **over):
    est = make(name, ds, **over)
    with warnings.catch_warnings():
        warnings.simplefilter('ignore')
        return est.fit(*train_args(name, ds, form))


def n_classes(ds):
    return len(ds.sizes)


def option_configs(name, ds, tier='quick'):
    """Documented option values: list of (label, overrides).  Mirrors C03's quantifier."""
    d = ds.d
    out = []
    ncs = [None] + list(range(1, d + 1))
    if tier == 'quick' and d > 3:
        ncs = [None, 1, 2, d - 1, d]
    if name in ('LMNN', 'NCA', 'MLKR'):
        for nc in ncs:
            k = nc or d
            inits = ['auto', 'pca', 'identity', 'random', 'array']
            if name != 'MLKR' and k <= n_classes(ds) - 1:
                inits.append('lda')
            for init in inits:
                o = {'init': init, 'n_components': nc}
                if init == 'array':
                    rs = np.random.RandomState(5 + k)
                    o['init'] = np.round(rs.randn(k, d) * 8) / 8 + np.eye(k, d)
                if init in ('random', 'pca'):
                    o['random_state'] = 1
                out.append(('init=%s,n_components=%s' % (init, nc), o))
        # the same option given as a NumPy integer scalar (what a parameter grid built with np.arange hands over)
        out.append(('init=auto,n_components=np.int64(%d)' % min(2, d), {'init': 'auto', 'n_components': np.int64(min(2, d))}))
    elif name in ('ITML', 'ITML_Supervised', 'LSML', 'LSML_Supervised', 'SDML', 'SDML_Supervised', 'MMC',
                  'MMC_Supervised'):
        key = 'init' if name.startswith('MMC') else 'prior'
        for pr in ('identity', 'covariance', 'random', 'array'):
            o = {key: data.spd(d) if pr == 'array' else pr}
            if pr == 'random' or name.endswith('_Supervised'):
                o['random_state'] = 1
            out.append(('%s=%s' % (key, pr), o))
    elif name == 'LFDA':
        for emb in ('weighted', 'orthonormalized', 'plain'):
            for k in [None] + list(range(1, d)):
                for nc in ncs:
                    out.append(('embedding_type=%s,k=%s,n_components=%s' % (emb, k, nc),
                                {'embedding_type': emb, 'k': k, 'n_components': nc}))
        out.append(('embedding_type=weighted,k=None,n_components=np.int64(1)', {'n_components': np.int64(1)}))
    elif name in ('RCA', 'RCA_Supervised'):
        for nc in [None] + list(range(1, d + 1)):
            out.append(('n_components=%s' % nc, {'n_components': nc}))
        out.append(('n_components=np.int64(%d)' % max(1, d - 1), {'n_components': np.int64(max(1, d - 1))}))
        if name == 'RCA_Supervised':
            # few but larger chunks: n_chunks < n_features <= n_chunks * (chunk_size - 1) (full rank only thanks to chunk_size)
            nch = -(-d // 2)
            if nch < d and sum(s_ // 3 for s_ in ds.sizes) >= nch:
                out.append(('chunk_size=3,n_chunks=%d' % nch, {'chunk_size': 3, 'n_chunks': nch}))
    elif name == 'Covariance':
        out.append(('default', {}))
    elif name in ('SCML', 'SCML_Supervised'):
        bases = ['triplet_diffs', 'array'] + (['lda'] if name == 'SCML_Supervised' else [])
        for b in bases:
            o = {'basis': b}
            if b == 'array':
                rs = np.random.RandomState(11)
                B = np.vstack([np.eye(d), np.round(rs.randn(2 * d, d) * 4) / 4])
                o['basis'] = B
                o['n_basis'] = None
            if b == 'triplet_diffs':
                o['n_basis'] = 4 * d
            out.append(('basis=%s' % b, o))
    return out


def retype(label, o):
    """Replay files store options as JSON: restore the NumPy integer scalar a label announces."""
    if 'np.int64(' in label and o.get('n_components') is not None:
        o = dict(o, n_components=np.int64(o['n_components']))
    if 'array_float32' in label and isinstance(o.get('init'), np.ndarray):
        o = dict(o, init=o['init'].astype(np.float32))
    return o


def family(tier, seed=0):
    """The fitted-model family F of DESIGN.md section 4: (name, label, overrides, dataset name)."""
    out = []
    dsn = data.names(tier, small=True)
    for n in dsn:
        ds = data.dataset(n, seed) if n == 'R' else data.dataset(n)
        d = ds.d
        for name in ALL:
            cfgs = []
            if name in ('LMNN', 'NCA', 'MLKR'):
                for lab, o in option_configs(name, ds, tier):
                    if o['n_components'] is None or (o['n_components'] == 1 and lab.startswith(('init=auto', 'init=lda'))):
                        cfgs.append((lab, o))
            elif name == 'LFDA':
                for emb in ('weighted', 'orthonormalized', 'plain'):
                    cfgs.append(('embedding_type=%s' % emb, {'embedding_type': emb}))
                cfgs.append(('n_components=1', {'n_components': 1}))
            elif name in ('RCA', 'RCA_Supervised'):
                cfgs = [('n_components=None', {}), ('n_components=1', {'n_components': 1})]
            else:
                cfgs = option_configs(name, ds, tier)
            if name in ('MMC', 'MMC_Supervised'):
                cfgs = cfgs + [('diagonal=True', {'diagonal': True})]
            for lab, o in cfgs:
                out.append((name, lab, o, n))
    return out
