"""C20 - PSD matrices are converted, validated and initialised as documented (DESIGN.md section 5, C20).

E1, exhaustive: every symmetric integer matrix of size 1..3 with entries in {-2..2} and of size 4 with entries in
{-1,0,1} (74 804 matrices), each also scaled by 2^+-20, through components_from_metric with PSD-ness decided exactly by
integer principal minors; near-PSD / asymmetric perturbations x tol; prior and init options through the initialisers
and through learners that return their initial matrix unchanged.
"""
import itertools
import warnings
from fractions import Fraction

import numpy as np

from mc import env  # noqa: F401
from mc import data, zoo, exact
from metric_learn import _util
from metric_learn.exceptions import NonPSDError

PID = 'C20'
LEVEL = 'exploration'
RULE = ('all symmetric integer matrices: size 1,2,3 entries in {-2..2}, size 4 entries in {-1,0,1} (thorough: also all 9 765 625 size-4 '
        'matrices with entries in {-2..2}) x scales {1, 2^20, 2^-20}, PSD ones also in mixed units (D A D, D = diag(2^9, 2^-9, 1..)); '
        'singular PSD matrices minus delta*I for delta in {tol/100, 100 tol} x tol in {default, 0, 1e-12, 1e-3}; asymmetric '
        'perturbations; priors {identity, covariance, random, array: valid / asymmetric / wrong shape / indefinite / singular} '
        'x strict_pd x return_inverse x datasets (incl. repeated points and spectra spanning 1e-12..1e12); inits '
        '{auto, pca, lda, identity, random, array} x n_components x datasets through zero-iteration LMNN / NCA / MLKR; '
        'signature = (size, rank, inertia, path taken) for matrices, (option, dataset, outcome) for initialisers')
ASSUMPTIONS = ['PSD-ness of integer matrices is decided exactly by the signs of all principal minors (integer arithmetic).',
               "'auto' is judged against the rule the code and the 'lda' description agree on (lda iff n_components <= "
               "min(n_features, n_classes - 1)); the class docstring's 'n_components <= n_classes' is read as that.",
               'Tolerance for L^T L = M: 64 d eps ||M||; covariance prior vs exact rational inverse: 1e3 cond eps relative.']
SIZES = {1: (-2, -1, 0, 1, 2), 2: (-2, -1, 0, 1, 2), 3: (-2, -1, 0, 1, 2), 4: (-1, 0, 1)}
NSHARD = 48


def V(site, clause, msg, triggers=(), **detail):
    return dict(site=site, clause=clause, msg=msg, triggers=list(triggers), detail=detail)


# ------------------------------------------------------------------ exact PSD test on integer matrices
def idet(A):
    n = len(A)
    if n == 1:
        return A[0][0]
    if n == 2:
        return A[0][0] * A[1][1] - A[0][1] * A[1][0]
    if n == 3:
        return (A[0][0] * (A[1][1] * A[2][2] - A[1][2] * A[2][1]) - A[0][1] * (A[1][0] * A[2][2] - A[1][2] * A[2][0])
                + A[0][2] * (A[1][0] * A[2][1] - A[1][1] * A[2][0]))
    return sum(((-1) ** j) * A[0][j] * idet([r[:j] + r[j + 1:] for r in A[1:]]) for j in range(n) if A[0][j])


_SUBSETS = {n: [c for r in range(1, n + 1) for c in itertools.combinations(range(n), r)] for n in range(1, 5)}


def psd_exact(A):
    n = len(A)
    for idx in _SUBSETS[n]:
        if idet([[A[i][j] for j in idx] for i in idx]) < 0:
            return False
    return True


def sym_from_index(n, alphabet, k):
    m = n * (n + 1) // 2
    b = len(alphabet)
    ent = []
    for _ in range(m):
        ent.append(alphabet[k % b])
        k //= b
    A = [[0] * n for _ in range(n)]
    it = iter(ent)
    for i in range(n):
        for j in range(i, n):
            A[i][j] = A[j][i] = next(it)
    return A


def check_conversion(M, is_psd, tol_arg, site, tr, viol):
    """Run components_from_metric on the float matrix M and judge the outcome against the exact verdict."""
    d = M.shape[0]
    M0 = M.copy()
    try:
        L = _util.components_from_metric(M) if tol_arg is None else _util.components_from_metric(M, tol=tol_arg)
    except NonPSDError:
        if is_psd is True:
            viol.append(V(site, 'psd_rejected', 'a positive semi-definite matrix was rejected with NonPSDError', tr, M=M0.tolist()))
        return 'NonPSDError'
    except Exception as e:
        viol.append(V(site, 'wrong_exception', 'raised %s: %s' % (type(e).__name__, str(e)[:100]), tr, M=M0.tolist()))
        return type(e).__name__
    if not np.array_equal(M, M0):
        viol.append(V(site, 'mutates_input', 'the input matrix was modified', tr))
    if is_psd is False:
        viol.append(V(site, 'indefinite_accepted', 'a matrix with an eigenvalue below -tol was converted instead of raising '
                      'NonPSDError', tr, M=M0.tolist()))
        return 'accepted'
    L = np.asarray(L)
    if L.ndim != 2 or L.shape[1] != d or not np.isfinite(L).all() or np.iscomplexobj(L):
        viol.append(V(site, 'bad_components', 'returned L has shape %s / non-finite / complex entries' % (L.shape,), tr, M=M0.tolist()))
        return 'bad'
    err = np.abs(L.T.dot(L) - M0).max()
    scale = max(np.abs(M0).max(), 1e-300)
    if not err <= 64 * d * exact.EPS * scale and is_psd is True:
        viol.append(V(site, 'LtL_differs', 'L^T L differs from M by %.3g (||M|| = %.3g)' % (err, scale), tr, M=M0.tolist()))
    return 'converted'


# ------------------------------------------------------------------ cases
def cases(tier, seed):
    out = []
    for n, alph in SIZES.items():
        total = len(alph) ** (n * (n + 1) // 2)
        ns = 1 if total < 2000 else NSHARD
        for s in range(ns):
            out.append(('matrices/n=%d/shard=%d' % (n, s), ('mat', n, alph, s, ns, None)))
    if tier == 'thorough':
        for s in range(NSHARD * 8):       # all 9 765 625 symmetric 4x4 matrices with entries in {-2..2}
            out.append(('matrices/n=4big/shard=%d' % s, ('mat', 4, (-2, -1, 0, 1, 2), s, NSHARD * 8, None)))
    out.append(('near_psd', ('near', seed)))
    for dsn in data.names(tier):
        out.append(('priors/%s' % dsn, ('priors', dsn, seed)))
        for name in ('LMNN', 'NCA', 'MLKR'):
            out.append(('inits/%s/%s' % (name, dsn), ('inits', name, dsn, seed)))
    out.append(('inits/pca_on_a_wide_dataset', ('pca_wide', seed)))
    out.append(('priors/wide_spectrum', ('spectrum', seed)))
    out.append(('priors/tiny_units', ('tiny', seed)))
    for name in ('LMNN', 'NCA', 'MLKR'):
        out.append(('inits/%s/auto_rule_few_samples' % name, ('autorule', name, seed)))
    out.append(('priors/huge_units', ('huge', seed)))
    return out


def cost(spec):
    return {'mat': 3, 'inits': 2}.get(spec[0], 1)


def run_case(spec):
    warnings.simplefilter('ignore')
    kind = spec[0]
    viol, sigs = [], set()
    evals = 0
    if kind == 'mat':
        _, n, alph, shard, ns, cls16 = spec
        total = len(alph) ** (n * (n + 1) // 2)
        sample = None
        for k in range(shard, total, ns):
            if cls16 is not None and (k // ns) % 16 != cls16:
                continue
            A = sym_from_index(n, alph, k)
            psd = psd_exact(A)
            Af = np.array(A, dtype=float)
            diag = bool(np.array_equal(Af, np.diag(np.diag(Af))))
            rank = int(np.linalg.matrix_rank(Af))
            for sc in (1.0, 2.0 ** 20, 2.0 ** -20):
                evals += 1
                out = check_conversion(Af * sc, psd, None, 'components_from_metric', ['diagonal' if diag else 'dense', 'n=%d' % n], viol)
            if psd and not diag and n >= 2:
                # the same form in badly matched units: D A D with D = diag(2^9, 2^-9, 1, ..) (exact; congruence keeps PSD-ness)
                Dv = np.ones(n)
                Dv[0], Dv[1] = 2.0 ** 9, 2.0 ** -9
                evals += 1
                check_conversion(Af * Dv[:, None] * Dv[None, :], True, None, 'components_from_metric', ['dense', 'n=%d' % n, 'mixed_units'], viol)
            sigs.add((n, rank, psd, diag, out))
            if sample is None and psd and not diag:
                sample = {'matrix': A, 'exactly_psd': psd, 'scales': [1, '2^20', '2^-20'], 'outcome': out}
        return dict(evals=evals, sigs=sigs, viol=viol, sample=sample)

    if kind == 'near':
        rs = np.random.RandomState(2000 + spec[1])
        sample = None
        for d in (2, 3, 4, 6, 8):
            for rank in range(0, d):
                for rep in range(3):
                    B = np.round(rs.randn(d, max(rank, 1)) * 4) / 4
                    M = B.dot(B.T) if rank else np.zeros((d, d))
                    M = (M + M.T) / 2
                    if rep == 2:
                        M = np.diag(np.diag(M))          # diagonal path
                    w = np.linalg.eigvalsh(M)
                    for tol_arg in (None, 0.0, 1e-12, 1e-3):
                        tol = (np.abs(w).max() * d * exact.EPS) if tol_arg is None else tol_arg
                        for fac, expect in ((0.01, True), (100.0, False)):
                            delta = tol * fac
                            if delta == 0 or delta < 16 * exact.EPS * max(np.abs(w).max(), 1e-300) * d and not expect:
                                continue      # the perturbation must dominate rounding to have a definite verdict
                            Mp = M - delta * np.eye(d)
                            lam = np.linalg.eigvalsh(Mp).min()
                            # verdict only when the computed spectrum is unambiguous w.r.t. the tolerance (guard G1b)
                            noise = 8 * d * exact.EPS * max(np.abs(w).max(), delta)
                            if expect and not (lam > -tol + noise):
                                continue
                            if (not expect) and not (lam < -tol - noise):
                                continue
                            evals += 1
                            o = check_conversion(Mp, True if expect else False, tol_arg, 'components_from_metric',
                                                 ['near_psd', 'tol=%r' % tol_arg, 'inside' if expect else 'outside'], viol)
                            # "inside" cases are PSD only up to rounding: the L^T L clause uses the perturbation size
                            sigs.add(('near', d, rank, rep == 2, tol_arg, expect, o))
                            if sample is None:
                                sample = {'M_minus_delta_I': Mp.tolist(), 'tol': tol_arg, 'delta': delta, 'expected': 'accepted' if expect else 'NonPSDError'}
                    # asymmetric perturbation
                    if d >= 2:
                        Ma = M + np.eye(d)
                        Ma[0, 1] += 0.5
                        evals += 1
                        try:
                            _util.components_from_metric(Ma)
                            viol.append(V('components_from_metric', 'asymmetric_accepted', 'a non-symmetric matrix was converted', ['asymmetric']))
                        except NonPSDError:
                            viol.append(V('components_from_metric', 'asymmetric_wrong_exception', 'non-symmetric matrix raised NonPSDError, not a '
                                          'plain ValueError', ['asymmetric']))
                        except ValueError:
                            sigs.add(('asym', d, rank))
        # remove the LtL clause misfires of inside-tolerance cases: they are PSD only up to delta
        viol = [v for v in viol if not (v['clause'] == 'LtL_differs' and 'inside' in v['triggers'])]
        return dict(evals=evals, sigs=sigs, viol=viol, sample=sample)

    if kind in ('tiny', 'huge'):
        # well-conditioned data expressed in tiny / huge units (exact power-of-two scaling): cut-offs must be relative
        ds = data.scaled(data.dataset('S3u'), 2.0 ** (-30 if kind == 'tiny' else 30))
        dsn = ds.name
        kind = 'spectrum_like'
    if kind in ('priors', 'spectrum', 'spectrum_like'):
        if kind == 'spectrum_like':
            d = ds.d
        elif kind == 'spectrum':
            ds0 = data.dataset('S5')
            sc = 10.0 ** np.array([-3, -1, 0, 1, 3])
            ds = data.scaled(ds0, 1.0)
            ds.X = ds0.X * sc
            ds.pairs = ds.X[ds0.pairs_idx]
            dsn = 'S5*diag(1e-3..1e3)'
        else:
            dsn = spec[1]
            ds = data.dataset('R', spec[2]) if dsn == 'R' else data.dataset(dsn)
        d = ds.d
        if kind == 'spectrum_like':
            # end to end as well: ITML with bounds the prior already satisfies must return the inverse covariance
            expc = np.linalg.inv(np.cov(np.unique(np.vstack(ds.pairs), axis=0), rowvar=False))
            try:
                e1 = zoo.make('ITML', ds, prior='covariance').fit(ds.pairs, ds.ypairs, bounds=np.array([1e30, 1e-30]))
                evals += 1
                if np.abs(e1.get_mahalanobis_matrix() - expc).max() > 1e-6 * np.abs(expc).max():
                    viol.append(V('ITML.fit', 'prior_not_returned', "prior='covariance' on %s: the returned matrix differs from the inverse covariance"
                                  % dsn, ['covariance', dsn]))
            except Exception as e:
                viol.append(V('ITML.fit', 'covariance_prior_rejected', "prior='covariance' on well-conditioned data in %s raised %s: %s"
                              % (dsn, type(e).__name__, str(e)[:100]), ['covariance', dsn]))
        I = _util._initialize_metric_mahalanobis
        for inp_name, inp in (('points', ds.X), ('pairs(repeated points)', ds.pairs), ('quadruplets', ds.quads), ('triplets', ds.trip)):
            Xd = np.unique(np.vstack(inp), axis=0) if inp.ndim == 3 else inp
            # exact covariance of the DISTINCT points and its exact inverse
            Xf = [exact.fvec(r) for r in Xd]
            n = len(Xf)
            mean = [sum(r[j] for r in Xf) / n for j in range(d)]
            C = [[sum((r[i] - mean[i]) * (r[j] - mean[j]) for r in Xf) / (n - 1) for j in range(d)] for i in range(d)]
            Cinv = finv(C)
            Cinv_f = np.array([[float(x) for x in row] for row in Cinv])
            cond = np.linalg.cond(np.array([[float(x) for x in r] for r in C]))
            for strict in (False, True):
                for ret_inv in (False, True):
                    tr = [inp_name, 'strict_pd=%s' % strict, 'return_inverse=%s' % ret_inv]
                    evals += 4
                    # identity
                    r = I(inp, 'identity', strict_pd=strict, return_inverse=ret_inv)
                    M = r[0] if ret_inv else r
                    if not np.array_equal(M, np.eye(d)) or (ret_inv and not np.array_equal(r[1], np.eye(d))):
                        viol.append(V('_initialize_metric_mahalanobis', 'identity', "'identity' is not the identity matrix", tr))
                    # covariance
                    r = I(inp, 'covariance', strict_pd=strict, return_inverse=ret_inv)
                    M = r[0] if ret_inv else r
                    rel = np.abs(M - Cinv_f).max() / np.abs(Cinv_f).max()
                    if not rel <= 1e3 * cond * exact.EPS:
                        viol.append(V('_initialize_metric_mahalanobis', 'covariance', "'covariance' differs from the exact inverse covariance "
                                      'of the distinct points by %.3g relative (cond %.3g) [%s, %s]' % (rel, cond, dsn, inp_name), tr))
                    if ret_inv:
                        Cf = np.array([[float(x) for x in row] for row in C])
                        if np.abs(r[1] - Cf).max() > 1e-12 * np.abs(Cf).max():
                            viol.append(V('_initialize_metric_mahalanobis', 'covariance_inverse', 'returned inverse is not the covariance', tr))
                    # random
                    a = I(inp, 'random', random_state=3, strict_pd=strict, return_inverse=ret_inv)
                    b = I(inp, 'random', random_state=3, strict_pd=strict, return_inverse=ret_inv)
                    c = I(inp, 'random', random_state=4, strict_pd=strict, return_inverse=ret_inv)
                    A0, B0, C0 = (a[0], b[0], c[0]) if ret_inv else (a, b, c)
                    if not np.array_equal(A0, B0):
                        viol.append(V('_initialize_metric_mahalanobis', 'random_reproducible', "'random' differs for equal seeds", tr))
                    if np.array_equal(A0, C0):
                        viol.append(V('_initialize_metric_mahalanobis', 'random_seed_ignored', "'random' identical for different seeds", tr))
                    if not (np.allclose(A0, A0.T) and np.linalg.eigvalsh(A0).min() > 0 and A0.shape == (d, d)):
                        viol.append(V('_initialize_metric_mahalanobis', 'random_spd', "'random' is not a symmetric positive definite (d,d) matrix", tr))
                    if ret_inv and np.abs(a[1].dot(A0) - np.eye(d)).max() > 1e-8:
                        viol.append(V('_initialize_metric_mahalanobis', 'random_inverse', 'returned inverse is not the inverse', tr))
                    # array (C-ordered, and Fortran-ordered below)
                    S = data.spd(d)
                    S0 = S.copy()
                    SF = np.asfortranarray(S0.copy())
                    rF = I(inp, SF, strict_pd=strict, return_inverse=ret_inv)
                    MF = rF[0] if ret_inv else rF
                    if not np.array_equal(MF, S0) or not np.array_equal(SF, S0):
                        viol.append(V('_initialize_metric_mahalanobis', 'array_as_given', 'a Fortran-ordered array prior is not used as given '
                                      '(or was modified)', tr + ['fortran']))
                    r = I(inp, S, strict_pd=strict, return_inverse=ret_inv)
                    M = r[0] if ret_inv else r
                    if not np.array_equal(M, S0) or not np.array_equal(S, S0):
                        viol.append(V('_initialize_metric_mahalanobis', 'array_as_given', 'an array prior is not used as given (or was modified)', tr))
                    if M is S:
                        viol.append(V('_initialize_metric_mahalanobis', 'array_not_copied', 'the returned matrix aliases the array given by the caller', tr))
                    if ret_inv and np.abs(r[1].dot(S0) - np.eye(d)).max() > 1e-9:
                        viol.append(V('_initialize_metric_mahalanobis', 'array_inverse', 'returned inverse of the array is wrong', tr))
                    sigs.add((dsn, inp_name, strict, ret_inv))
                # rejected arrays
                bads = {'asymmetric': S0 + np.triu(np.ones((d, d)), 1), 'wrong_shape': np.eye(d + 1), 'not_square': np.ones((d, d + 1)),
                        'indefinite': S0 - 2 * np.linalg.eigvalsh(S0).max() * np.eye(d) * (np.arange(d) == 0)}
                for bn, Bm in bads.items():
                    evals += 1
                    try:
                        I(inp, Bm, strict_pd=strict)
                        viol.append(V('_initialize_metric_mahalanobis', 'bad_array_accepted', '%s array accepted as prior' % bn, [bn]))
                    except ValueError as e:     # NonPSDError / LinAlgError are ValueErrors
                        if bn == 'indefinite' and not isinstance(e, NonPSDError):
                            viol.append(V('_initialize_metric_mahalanobis', 'indefinite_wrong_exception', 'indefinite array raised %s'
                                          % type(e).__name__, [bn]))
                        sigs.add((dsn, 'reject', bn, strict))
                    except Exception as e:
                        viol.append(V('_initialize_metric_mahalanobis', 'bad_array_wrong_exception', '%s array raised %s' % (bn, type(e).__name__), [bn]))
        # singular prior: rejected by the learners that need a strictly PD prior, accepted by MMC
        if kind == 'priors':
            Bs = np.round(np.random.RandomState(5).randn(d, d - 1) * 4) / 4
            Sing = Bs.dot(Bs.T)
            for name in ('ITML', 'LSML', 'SDML', 'ITML_Supervised', 'LSML_Supervised', 'SDML_Supervised'):
                evals += 1
                try:
                    zoo.fit(name, ds, prior=Sing)
                    viol.append(V(name + '.fit', 'singular_prior_accepted', '%s accepted a singular prior' % name, ['singular']))
                except ValueError:
                    sigs.add((dsn, 'singular_rejected', name))
                except Exception as e:
                    viol.append(V(name + '.fit', 'singular_prior_wrong_exception', '%s raised %s for a singular prior' % (name, type(e).__name__), ['singular']))
            # the same singular matrix as float32 (its eigenvalue noise is float32-sized): still a valid PSD init for MMC, and the
            # learners that need a strictly PD prior still reject it because it is NOT DEFINITE (not because it is "not PSD")
            Sing32 = Sing.astype(np.float32)
            for name in ('ITML', 'LSML'):
                evals += 1
                try:
                    zoo.fit(name, ds, prior=Sing32)
                    viol.append(V(name + '.fit', 'singular_prior_accepted', '%s accepted a singular float32 prior' % name, ['singular', 'float32']))
                except NonPSDError:
                    viol.append(V(name + '.fit', 'singular_prior_wrong_exception', '%s: a singular (PSD) float32 prior was reported as not PSD' % name,
                                  ['singular', 'float32']))
                except ValueError:
                    sigs.add((dsn, 'singular_float32_rejected', name))
            evals += 1
            try:
                zoo.fit('MMC', ds, init=Sing32, max_iter=3)
                sigs.add((dsn, 'singular_float32_accepted', 'MMC'))
            except Exception as e:
                viol.append(V('MMC.fit', 'singular_init_rejected', 'MMC rejected a singular PSD float32 init (%s)' % type(e).__name__, ['singular', 'float32']))
            evals += 1
            try:
                zoo.fit('MMC', ds, init=Sing, max_iter=3)
                sigs.add((dsn, 'singular_accepted', 'MMC'))
            except Exception as e:
                viol.append(V('MMC.fit', 'singular_init_rejected', 'MMC rejected a singular PSD init (%s)' % type(e).__name__, ['singular']))
            # learners that return their prior unchanged: the option means what it says end to end
            for pr in ('identity', 'covariance', 'random', 'array'):
                prv = data.spd(d) if pr == 'array' else pr
                exp = I(ds.pairs, prv, random_state=1)
                evals += 2
                e1 = zoo.make('ITML', ds, prior=prv, random_state=1).fit(ds.pairs, ds.ypairs, bounds=np.array([1e12, 1e-12]))
                if np.abs(e1.get_mahalanobis_matrix() - exp).max() > 1e-9 * np.abs(exp).max() or e1.n_iter_ != 0:
                    viol.append(V('ITML.fit', 'prior_not_returned', 'ITML with bounds the prior already satisfies does not return the %s prior '
                                  '(n_iter_=%s)' % (pr, e1.n_iter_), [pr]))
                expq = I(ds.quads_sat, prv, random_state=1)
                vab = ds.quads_sat[:, 0] - ds.quads_sat[:, 1]
                vcd = ds.quads_sat[:, 2] - ds.quads_sat[:, 3]
                dab = np.einsum('ij,jk,ik->i', vab, expq, vab)
                dcd = np.einsum('ij,jk,ik->i', vcd, expq, vcd)
                if not np.all(dab * (1 + 1e-9) < dcd):
                    continue             # the clause only speaks about priors under which every constraint already holds
                e2 = zoo.make('LSML', ds, prior=prv, random_state=1).fit(ds.quads_sat)
                if np.abs(e2.get_mahalanobis_matrix() - expq).max() > 1e-9 * np.abs(expq).max():
                    viol.append(V('LSML.fit', 'prior_not_returned', 'LSML with all constraints satisfied does not return the %s prior' % pr, [pr]))
                sigs.add((dsn, 'prior_returned', pr))
        return dict(evals=evals, sigs=sigs, viol=viol,
                    sample={'dataset': dsn, 'options': ['identity', 'covariance', 'random', 'array', 'rejected arrays', 'singular']})

    if kind == 'autorule':
        # the documented selection rule of init='auto' where its three conditions meet: fewer samples than features
        _, name, seed = spec
        rs = np.random.RandomState(77)
        for (n, d, ncls) in ((6, 8, 2), (7, 5, 3), (9, 9, 3)):
            y = np.arange(n) % ncls
            X = np.round((rs.randn(n, d) + 2 * rs.randn(ncls, d)[y]) * 64) / 64
            yy = np.round(X[:, 0] * 64) / 64 if name == 'MLKR' else y
            zero_iter = {'LMNN': dict(max_iter=2, n_neighbors=1), 'NCA': dict(tol=1e10), 'MLKR': dict(tol=1e10)}[name]
            for nc in range(1, min(n, d) + 1):
                if name != 'MLKR' and nc <= min(d, ncls - 1):
                    rule = 'lda'
                elif nc < min(d, n):
                    rule = 'pca'
                else:
                    rule = 'identity'
                try:
                    La = zoo.cls(name)(init='auto', n_components=nc, random_state=0, **zero_iter).fit(X.copy(), yy.copy()).components_
                    Lr = zoo.cls(name)(init=rule, n_components=nc, random_state=0, **zero_iter).fit(X.copy(), yy.copy()).components_
                except Exception as e:
                    viol.append(V(name + '.fit', 'init_auto', 'fit raised %s on a %dx%d dataset with n_components=%d' % (type(e).__name__, n, d, nc), ['few_samples']))
                    continue
                evals += 2
                sigs.add((name, n, d, nc, rule))
                if not np.array_equal(La, Lr):
                    viol.append(V(name + '.fit', 'init_auto', "%d samples x %d features, n_components=%d: init='auto' differs from init=%r, which the "
                                  'documented rule selects' % (n, d, nc, rule), ['few_samples', rule]))
        return dict(evals=evals, sigs=sigs, viol=viol, sample={'learner': name, 'datasets': '6x8, 7x5, 9x9', 'rule': "auto -> lda / pca / identity"})
    if kind == 'pca_wide':
        # 520 samples x 60 features, 5 components: scikit-learn's PCA picks its RANDOMISED solver here; the documented
        # behaviour is that random_state reaches it, so an integer seed pins the initial transformation down
        rs = np.random.RandomState(20500)
        X = np.round(rs.randn(520, 60) * np.linspace(1, 3, 60) * 16) / 16
        y = rs.randint(3, size=520)
        outs = {}
        for seed_ in (0, 0, 1):
            for init in ('pca', 'auto'):
                np.random.seed(rs.randint(1 << 30))            # whatever the global generator holds must not matter
                L = _util._initialize_components(5, X, y, init=init, random_state=seed_, has_classes=(init == 'pca'))
                evals += 1
                outs.setdefault((init, seed_), []).append(np.array(L))
        for init in ('pca', 'auto'):
            a, b = outs[(init, 0)]
            sigs.add(('pca_wide', init, bool(np.array_equal(a, outs[(init, 1)][0]))))
            if a.shape != (5, 60) or not np.array_equal(a, b):
                viol.append(V('_initialize_components', 'init_pca_seed', "init=%r on a 520 x 60 dataset: two calls with random_state=0 give different "
                              'initial transformations (max abs diff %.3g)' % (init, np.abs(a - b).max() if a.shape == b.shape else np.nan), [init, 'wide']))
        return dict(evals=evals, sigs=sigs, viol=viol, sample={'case': 'pca / auto init on 520 x 60 points, 5 components, seeds 0, 0, 1'})
    if kind == 'inits':
        _, name, dsn, seed = spec
        ds = data.dataset('R', seed) if dsn == 'R' else data.dataset(dsn)
        d, ncls = ds.d, len(ds.sizes)
        X = ds.X
        y = ds.yreg if name == 'MLKR' else ds.y
        zero_iter = {'LMNN': dict(max_iter=2), 'NCA': dict(tol=1e10), 'MLKR': dict(tol=1e10)}[name]

        def init_of(**over):
            e = zoo.make(name, ds, **dict(zero_iter, **over))
            e.fit(X, y)
            return e.components_
        for nc in [None] + list(range(1, d + 1)):
            k = nc or d
            tr = ['n_components=%s' % nc]
            evals += 6
            # identity
            L = init_of(init='identity', n_components=nc)
            if not np.array_equal(L, np.eye(k, d)):
                viol.append(V(name + '.fit', 'init_identity', "init='identity' is not eye(%d, %d) after zero iterations" % (k, d), tr))
            # auto == the explicit option the rule selects
            if name != 'MLKR' and k <= min(d, ncls - 1):
                rule = 'lda'
            elif k < min(d, len(X)):
                rule = 'pca'
            else:
                rule = 'identity'
            La = init_of(init='auto', n_components=nc, random_state=0)
            Lr = init_of(init=rule, n_components=nc, random_state=0)
            if not np.array_equal(La, Lr):
                viol.append(V(name + '.fit', 'init_auto', "init='auto' differs from init=%r, which the documented rule selects" % rule, tr + [rule]))
            sigs.add((name, dsn, nc, 'auto->' + rule))
            # pca: rows span the top-k principal subspace, in order
            Lp = init_of(init='pca', n_components=nc, random_state=0)
            Xc = X - X.mean(0)
            _, s, vt = np.linalg.svd(Xc, full_matrices=False)
            if Lp.shape != (k, d):
                viol.append(V(name + '.fit', 'init_pca', 'pca init has shape %s' % (Lp.shape,), tr))
            else:
                for i in range(k):
                    if min(np.abs(Lp[i] - vt[i]).max(), np.abs(Lp[i] + vt[i]).max()) > 1e-8:
                        viol.append(V(name + '.fit', 'init_pca', 'row %d of the pca init is not the %d-th principal axis' % (i, i + 1), tr))
                        break
            # lda (classification learners, k <= n_classes - 1): generalised eigenvectors in decreasing order
            if name != 'MLKR' and k <= ncls - 1:
                Ll = init_of(init='lda', n_components=nc)
                mu = X.mean(0)
                Sw = np.zeros((d, d))
                Sb = np.zeros((d, d))
                for c in np.unique(ds.y):
                    Xk = X[ds.y == c]
                    Sw += (Xk - Xk.mean(0)).T.dot(Xk - Xk.mean(0))
                    Sb += len(Xk) * np.outer(Xk.mean(0) - mu, Xk.mean(0) - mu)
                lams = []
                okl = Ll.shape == (k, d)
                for v in (Ll if okl else []):
                    lam = v.dot(Sb).dot(v) / v.dot(Sw).dot(v)
                    lams.append(lam)
                    if np.linalg.norm(Sb.dot(v) - lam * Sw.dot(v)) > 1e-6 * np.linalg.norm(Sb.dot(v)):
                        okl = False
                if not okl or any(lams[i] < lams[i + 1] * (1 - 1e-9) for i in range(len(lams) - 1)):
                    viol.append(V(name + '.fit', 'init_lda', 'lda init rows are not the leading generalised eigenvectors of (S_b, S_w) in '
                                  'decreasing order', tr))
                top = np.sort(np.linalg.eigvals(np.linalg.solve(Sw, Sb)).real)[::-1][:k]
                if okl and np.abs(np.array(lams) - top).max() > 1e-6 * max(top.max(), 1e-300):
                    viol.append(V(name + '.fit', 'init_lda', 'lda init does not take the LEADING discriminant directions', tr))
            # random: reproducible, seed dependent, right shape
            R1, R2, R3 = (init_of(init='random', n_components=nc, random_state=s) for s in (5, 5, 6))
            if not np.array_equal(R1, R2) or np.array_equal(R1, R3) or R1.shape != (k, d):
                viol.append(V(name + '.fit', 'init_random', "init='random' is not reproducible / seed dependent / of shape (%d,%d)" % (k, d), tr))
            # array: used as given; shape rules
            Arr = np.round(np.random.RandomState(k).randn(k, d) * 8) / 8 + np.eye(k, d)
            A0 = Arr.copy()
            La = init_of(init=Arr, n_components=nc)
            if not np.array_equal(La, A0) or not np.array_equal(Arr, A0):
                viol.append(V(name + '.fit', 'init_array', 'an array init is not used as given (or was modified)', tr))
            for bn, badA, bnc in (('wrong_features', np.ones((k, d + 1)), nc), ('more_rows_than_features', np.ones((d + 1, d)), None),
                                  ('rows_ne_n_components', np.ones((k, d)), (k % d) + 1 if d > 1 else None)):
                if bn == 'rows_ne_n_components' and (bnc is None or bnc == k):
                    continue
                evals += 1
                try:
                    init_of(init=badA, n_components=bnc)
                    viol.append(V(name + '.fit', 'init_array_shape', 'array init with %s accepted' % bn, tr + [bn]))
                except ValueError:
                    sigs.add((name, dsn, 'reject', bn))
                except Exception as e:
                    viol.append(V(name + '.fit', 'init_array_shape', 'array init with %s raised %s' % (bn, type(e).__name__), tr + [bn]))
        return dict(evals=evals, sigs=sigs, viol=viol, sample={'learner': name, 'dataset': dsn, 'inits': ['auto', 'pca', 'lda', 'identity', 'random', 'array']})


def finv(C):
    n = len(C)
    A = [list(C[i]) + [Fraction(int(i == j)) for j in range(n)] for i in range(n)]
    for c in range(n):
        p = next(r for r in range(c, n) if A[r][c] != 0)
        A[c], A[p] = A[p], A[c]
        pv = A[c][c]
        A[c] = [x / pv for x in A[c]]
        for r in range(n):
            if r != c and A[r][c] != 0:
                f = A[r][c]
                A[r] = [x - f * y for x, y in zip(A[r], A[c])]
    return [row[n:] for row in A]
