"""C03 - fit on well-formed input yields a valid Mahalanobis model of the right shape (DESIGN.md section 5, C03).

E1: 17 estimators x the full Cartesian product of documented option values x the dataset alphabet, each both as a
first fit and as a second fit of an object previously fitted on data of another dimensionality.
"""
import warnings

import numpy as np

from mc import env  # noqa: F401
from mc import data, zoo

PID = 'C03'
LEVEL = 'exploration'
RULE = ('17 estimators x product of documented options (init x n_components; prior/init; embedding_type x k x '
        'n_components; basis; n_components) x datasets x {first fit, refit after a fit on another dimensionality}; '
        'signature = (estimator, option values, dataset, history, shape of components_); every case is a real fit, '
        'non-trivial = fit returned (all are expected to)')
ASSUMPTIONS = ['Well-formed input = the dataset alphabet of DESIGN.md section 4 (dyadic grid, cond <= 1e4, >= 4 members per '
               'class, no collapsed pairs); hyper-parameters inside documented ranges (SDML balance_param chosen so that '
               'the graphical-lasso input is positive definite).']


def V(site, clause, msg, triggers=(), **detail):
    return dict(site=site, clause=clause, msg=msg, triggers=list(triggers), detail=detail)


def ser(o):
    return {k: (v.tolist() if isinstance(v, np.ndarray) else v) for k, v in o.items()}


LARGE_UNITS = 2.0 ** 13      # exact scaling: the same datasets expressed in units ~1e4 times smaller


def cases(tier, seed):
    out = []
    # data in large units (features ~1e4): every learner except ITML, whose absolute constants (1e-9 bound floor, identity prior
    # against squared distances ~1e8) make such data ill-posed for it (on the unchanged tree ITML raises NonPSDError on S5 x 2^13)
    for dsn in ('S3u', 'S5'):
        for name in zoo.ALL:
            if not name.startswith('ITML'):
                for lab, o in zoo.option_configs(name, data.dataset(dsn), tier)[:4]:
                    if not any(isinstance(v, np.ndarray) for v in o.values()):
                        out.append(('%s/%s/%s*2^13/first' % (name, lab, dsn), (name, lab, o, dsn + '*large', seed, 'first')))
    # an SPD array option in single precision ("used as given": any float dtype), for the learner that iterates on it in place
    for dsn in ('S3u', 'S5'):
        for name in ('MMC', 'MMC_Supervised'):
            o = {'init': data.spd(data.SPECS[dsn][0]).astype(np.float32)}
            if name.endswith('_Supervised'):
                o['random_state'] = 1
            for hist in ('first', 'refit'):
                out.append(('%s/init=array_float32/%s/%s' % (name, dsn, hist), (name, 'init=array_float32', o, dsn, seed, hist)))
    for dsn in data.names(tier):
        ds = data.dataset(dsn, seed) if dsn == 'R' else data.dataset(dsn)
        for name in zoo.ALL:
            for lab, o in zoo.option_configs(name, ds, tier):
                hists = ('first', 'refit', 'renamed_labels') if (zoo.KIND[name] == 'class' and 'n_components=1' not in lab) else ('first', 'refit')
                if name == 'RCA':
                    hists += ('renamed_chunks',)
                for hist in hists:
                    out.append(('%s/%s/%s/%s' % (name, lab, dsn, hist), (name, lab, o, dsn, seed, hist)))
    return out


def spec_to_json(spec):
    return [spec[0], spec[1], ser(spec[2])] + list(spec[3:])


def spec_from_json(j):
    return (j[0], j[1], zoo.retype(j[1], {k: (np.array(v) if isinstance(v, list) else v) for k, v in j[2].items()}), j[3], j[4], j[5])


def cost(spec):
    return {'MMC': 5, 'MMC_Supervised': 4, 'LSML': 3, 'ITML': 2, 'ITML_Supervised': 2}.get(spec[0], 1)


def run_case(spec):
    name, lab, over, dsn, seed, hist = spec
    if dsn.endswith('*large'):
        ds = data.scaled(data.dataset(dsn.split('*')[0]), LARGE_UNITS)
    else:
        ds = data.dataset(dsn, seed) if dsn == 'R' else data.dataset(dsn)
    d, n = ds.d, len(ds.X)
    viol = []
    tr = [hist]
    site = name
    with warnings.catch_warnings(record=True) as w:
        warnings.simplefilter('always')
        try:
            if hist in ('first', 'renamed_labels', 'renamed_chunks'):
                est = zoo.make(name, ds, **over)
            else:
                other = data.dataset('S2' if d != 2 else 'S3')
                est = zoo.make(name, other)
                est.fit(*zoo.train_args(name, other))
                p = zoo.base_params(name, ds)
                p.update(over)
                if 'n_components' in est.get_params() and 'n_components' not in p:
                    p['n_components'] = None
                est.set_params(**p)
            targs = zoo.train_args(name, ds)
            if hist == 'renamed_labels':           # class NAMES that are neither contiguous nor ordered
                targs = (targs[0], np.array([7, 3, 12, 5])[np.asarray(targs[1])])
            if hist == 'renamed_chunks':           # chunklet names 3, 5, 7, .. (neither contiguous nor starting at 0)
                ch = np.asarray(targs[1]).copy()
                ch[ch >= 0] = 2 * ch[ch >= 0] + 3
                targs = (targs[0], ch)
            r = est.fit(*targs)
        except Exception as e:
            return dict(evals=1, sigs=[], viol=[V(site, 'fit_raises', 'fit raised %s: %s' % (type(e).__name__, str(e)[:200]), tr)],
                        sample=None)
    if r is not est:
        viol.append(V(site, 'returns_self', 'fit did not return the estimator itself', tr))
    L = getattr(est, 'components_', None)
    if not isinstance(L, np.ndarray):
        return dict(evals=1, sigs=[], viol=[V(site, 'components_type', 'components_ is %r' % type(L), tr)])
    nc = est.get_params().get('n_components', None)
    if L.ndim != 2:
        viol.append(V(site, 'components_ndim', 'components_ has %d dimensions' % L.ndim, tr))
    elif L.dtype.kind != 'f':          # "a real ... float array" (a float32 array option legitimately yields float32 components)
        viol.append(V(site, 'components_dtype', 'components_ has dtype %s, expected a real floating-point dtype' % L.dtype, tr))
    elif not np.isfinite(L).all():
        viol.append(V(site, 'components_finite', 'components_ contains NaN / inf', tr))
    else:
        k = L.shape[0]
        if L.shape[1] != d:
            viol.append(V(site, 'components_shape', 'components_ has shape %s for %d features' % (L.shape, d), tr))
        elif nc is not None and k != nc:
            viol.append(V(site, 'components_shape', 'n_components=%d but components_ has %d rows' % (nc, k), tr))
        elif nc is None and k > d:
            viol.append(V(site, 'components_shape', 'components_ has %d rows > %d features' % (k, d), tr))
        elif nc is None and k < d:
            if not name.startswith('SCML'):
                viol.append(V(site, 'components_shape', 'components_ has only %d rows and n_components is not set' % k, tr))
            elif not any('reduces the dimension' in str(x.message) for x in w):
                viol.append(V(site, 'lowrank_warning', 'SCML returned %d < %d rows without the low-rank warning' % (k, d), tr))
        if L.shape[1] == d:
            M = est.get_mahalanobis_matrix()
            # "up to rounding" means the rounding of the dtype the model is held in (a float32 array option yields a float32 model)
            rnd = 1e-12 if L.dtype == np.float64 else 64 * float(np.finfo(L.dtype).eps)
            if M.shape != (d, d) or not np.allclose(M, M.T, rtol=rnd, atol=0):
                viol.append(V(site, 'M_symmetric', 'M is not a symmetric (d, d) matrix', tr))
            elif np.linalg.eigvalsh((np.asarray(M, dtype=float) + np.asarray(M, dtype=float).T) / 2).min() < -rnd * max(1e-300, np.abs(M).max()) * d:
                viol.append(V(site, 'M_psd', 'M is not positive semi-definite', tr))
            T = est.transform(ds.X)
            if T.shape != (n, k):
                viol.append(V(site, 'transform_shape', 'transform maps %s to %s, expected %s' % (ds.X.shape, T.shape, (n, k)), tr))
    nfi = getattr(est, 'n_features_in_', None)
    if nfi != d:
        viol.append(V(site, 'n_features_in_', 'n_features_in_ = %r after fitting %d-dimensional points' % (nfi, d), tr))
    shape = tuple(L.shape)
    return dict(evals=1, sigs=[(name, lab, dsn, hist, shape)], viol=viol,
                sample={'estimator': name, 'options': lab, 'dataset': dsn, 'history': hist, 'components_shape': list(shape)})
