"""C15 - SCML learns a non-negative combination of its basis by the documented scheme (DESIGN.md section 5, C15).

E3: with an array basis and tiny instances, EVERY batch-draw program of the (scripted) random generator is executed;
E4/E1: configurations x (beta, gamma) x (max_iter, output_iter, batch_size) x seeds x datasets.  In every execution the
basis and the chosen weights are captured at _components_from_basis_weights and compared with a plain-loop replay of the
documented dual-averaging scheme driven by the same draws (best checkpoint by regularised hinge objective).
"""
import itertools
import warnings

import numpy as np

from mc import env  # noqa: F401
from mc import data, zoo
from mc.observe import Patched
from mc.rng import explore
from mc.refmodel import scml_replay
import metric_learn as ml

PID = 'C15'
LEVEL = 'model_checking'
RULE = ('E3: array basis, 3-4 triplets of S2, (max_iter, output_iter, batch_size) in {(2,1,2), (3,1,2), (3,3,1), (4,2,1)}: all n^(max_iter x '
        'batch_size) draw programs; E4: SCML x basis {triplet_diffs, array} and SCML_Supervised x basis {triplet_diffs, lda, array} x '
        '(beta, gamma) in {(1e-5, 5e-3), (1e-2, 5e-3), (1e-3, 5e-2)} x (max_iter, output_iter, batch_size) in {(50,10,3), (200,50,10), '
        '(1000,100,10), (120,120,4), (130,40,3)} x seeds {0,1,2} x datasets, each also as a second fit; state = one execution; '
        'non-trivial = at least one positive weight')
ASSUMPTIONS = ['Replay in mc/refmodel/scml_replay.py (plain loops over the documented update); an execution whose smallest hinge margin '
               '|1 + dd.w| is below 1e-9 or whose two best checkpoint objectives are closer than 1e-12 is counted ambiguous.',
               'Draws for integer seeds are reproduced with numpy.random.RandomState(seed).randint (the documented source of randomness).']
BG = [(1e-5, 5e-3), (1e-2, 5e-3), (1e-3, 5e-2)]
SCHED = [(50, 10, 3), (200, 50, 10), (1000, 100, 10), (120, 120, 4), (130, 40, 3)]     # last: max_iter not a multiple of output_iter


def V(site, clause, msg, triggers=(), **detail):
    return dict(site=site, clause=clause, msg=msg, triggers=list(triggers), detail=detail)


def cases(tier, seed):
    out = []
    for nt in (3, 4):
        for sch in ((2, 1, 2), (3, 1, 2), (3, 3, 1), (4, 2, 1)) if tier == 'quick' else ((2, 1, 2), (3, 1, 2), (3, 3, 1), (4, 2, 1), (3, 1, 2), (5, 5, 1)):
            out.append(('e3/nt=%d/%s' % (nt, 'x'.join(map(str, sch))), ('e3', nt, sch)))
    out.append(('SCML/int_points/array', ('intpts', seed)))
    out.append(('SCML/n_triplets_equals_n_features', ('minimal', seed)))
    out.append(('SCML/10400_triplets/array', ('bigtrip', seed)))
    out.append(('SCML_Supervised/same_array_edited_in_place', ('inplace', seed)))
    for dsn in (['S3u', 'S5'] if tier == 'quick' else data.THOROUGH):
        out.append(('generated_bases/%s' % dsn, ('genbasis', dsn, seed)))
    for dsn in (['S2', 'S3u', 'S5'] if tier == 'quick' else data.THOROUGH):
        for name, bases in (('SCML', ['triplet_diffs', 'array']), ('SCML_Supervised', ['triplet_diffs', 'lda', 'array'])):
            for basis in bases:
                for bi in range(len(BG)):
                    out.append(('%s/%s/%s/bg%d' % (name, dsn, basis, bi), ('fit', name, dsn, basis, bi, seed)))
    return out


def cost(spec):
    return 3 if spec[0] == 'fit' else 1



class Spy(object):
    def __init__(self):
        self.calls = []
        orig = ml.scml._BaseSCML._components_from_basis_weights
        spy = self

        def wrapper(self_, basis, w):
            spy.calls.append((np.array(basis, copy=True), np.array(w, copy=True)))
            return orig(self_, basis, w)
        self.patch = Patched(ml.scml._BaseSCML, '_components_from_basis_weights', wrapper)

    def __enter__(self):
        self.patch.__enter__()
        return self

    def __exit__(self, *e):
        self.patch.__exit__(*e)


def judge(site, est, basis, w, triplets, draws, beta, gamma, output_iter, batch_size, tr, viol, warns, d):
    """returns (ambiguous, nontrivial)"""
    w = np.asarray(w, dtype=float).ravel()
    if (w < 0).any():
        viol.append(V(site, 'negative_weight', 'a basis weight is negative (%.3g)' % w.min(), tr))
    M = est.get_mahalanobis_matrix()
    Mref = sum(wi * np.outer(b, b) for wi, b in zip(w, basis)) if len(w) else np.zeros((d, d))
    sc = max(np.abs(Mref).max(), 1e-300)
    if M.shape != Mref.shape or np.abs(M - Mref).max() > 1e-9 * sc:
        viol.append(V(site, 'M_not_combination', 'M differs from sum_i w_i b_i b_i^T by %.3g relative'
                      % (np.abs(M - Mref).max() / sc if M.shape == Mref.shape else np.nan), tr))
    active = int((w > 0).sum())
    L = est.components_
    lowrank_warn = any('reduces the dimension' in str(x.message) for x in warns)
    if active < d:
        if L.shape[0] != active:
            viol.append(V(site, 'lowrank_rows', '%d active bases < %d features but components_ has %d rows' % (active, d, L.shape[0]), tr))
        if not lowrank_warn:
            viol.append(V(site, 'lowrank_warning', '%d active bases < %d features and no warning' % (active, d), tr))
    elif L.shape[0] != d and L.shape[0] != active:
        viol.append(V(site, 'rows', 'components_ has %d rows with %d active bases' % (L.shape[0], active), tr))
    dd = scml_replay.dist_diff(triplets, basis)
    bw, bo, cps, margin, gap = scml_replay.replay(dd, draws, beta, gamma, output_iter, batch_size)
    if margin < 1e-9 or gap < 1e-12:
        return True, active > 0
    dev = np.abs(w - bw).max() / max(np.abs(bw).max(), 1e-300) if bw is not None and len(bw) == len(w) else np.inf
    if not dev <= 1e-8:
        # which checkpoint (if any) do the returned weights correspond to?
        which = [it for it, o, cw in cps if len(cw) == len(w) and np.abs(cw - w).max() <= 1e-8 * max(np.abs(cw).max(), 1e-300)]
        viol.append(V(site, 'weights_not_documented_scheme', 'returned weights differ from the replay of the dual-averaging scheme at its best '
                      'checkpoint by %.3g relative%s' % (dev, (' (they are the weights of checkpoint iter=%s, objective %.6g vs best %.6g)'
                                                               % (which[0], [o for it, o, _ in cps if it == which[0]][0], bo)) if which else ''), tr))
    return False, active > 0


def run_case(spec):
    warnings.simplefilter('ignore')
    viol, sigs = [], set()
    evals = states = trans = amb = 0
    if spec[0] == 'e3':
        _, nt, (mi, oi, bs) = spec
        ds = data.dataset('S2')
        T = ds.trip[:nt].copy()
        d = ds.d
        B = np.array([[1.0, 0.0], [0.0, 1.0], [0.6, 0.8], [0.8, -0.6]])
        beta, gamma = 1e-3, 5e-2
        outcomes = set()

        def run(rng):
            est = ml.SCML(basis=B.copy(), beta=beta, gamma=gamma, max_iter=mi, output_iter=oi, batch_size=bs, random_state=rng)
            with Spy() as spy, warnings.catch_warnings(record=True) as w:
                warnings.simplefilter('always')
                est.fit(T.copy())
            return est, spy.calls[-1], list(w)
        st = None
        for script, obs in explore(run):
            if script == '__stats__':
                st = obs
                break
            if isinstance(obs, Exception):
                viol.append(V('SCML.fit', 'raises', 'fit raised %s: %s [draws %s]' % (type(obs).__name__, str(obs)[:100], script), ['e3']))
                continue
            est, (basis, w), warns = obs
            draws = np.array(script + [0] * (mi * bs - len(script))).reshape(mi, bs)
            a, nontriv = judge('SCML.fit', est, basis, w, T, draws, beta, gamma, oi, bs, ['e3', 'draws=%s' % script], viol, warns, d)
            amb += int(a)
            outcomes.add(tuple(np.round(np.asarray(w).ravel(), 12)))
        evals, states, trans = st['executions'], st['states'], st['transitions']
        for o in outcomes:
            if any(o):
                sigs.add(('e3', nt, mi, oi, bs, o))
        return dict(evals=evals, sigs=sigs, viol=viol, states=states, transitions=trans, ambiguous=amb,
                    stats={'e3_complete_trees': int(st['complete']), 'e3_distinct_weight_outcomes': len(outcomes)},
                    sample={'kind': 'all draw programs', 'triplets': nt, 'max_iter': mi, 'output_iter': oi, 'batch_size': bs,
                            'programs': evals, 'distinct_weight_outcomes': len(outcomes)})
    if spec[0] == 'minimal':
        # exactly as many triplets as features (the smallest admissible triplet set), for every basis option that applies
        for dsn in ('S2', 'S3u', 'S5'):
            ds = data.dataset(dsn)
            d = ds.d
            T = ds.trip[:d].copy()
            for seed in (0, 1):
                for basis_opt in ('triplet_diffs', 'array'):
                    bval = np.vstack([np.eye(d), np.ones((1, d)) / np.sqrt(d)]) if basis_opt == 'array' else basis_opt
                    kw = dict(basis=bval, beta=1e-3, gamma=5e-2, max_iter=40, output_iter=10, batch_size=2, random_state=seed)
                    if basis_opt == 'triplet_diffs':
                        kw['n_basis'] = 2 * d
                    est = ml.SCML(**kw)
                    with Spy() as spy, warnings.catch_warnings(record=True) as wr:
                        warnings.simplefilter('always')
                        try:
                            est.fit(T.copy())
                        except Exception as e:
                            viol.append(V('SCML.fit', 'raises', '%d triplets with %d features (admissible: n_triplets >= n_features), basis=%s: fit raised '
                                          '%s: %s' % (len(T), d, basis_opt, type(e).__name__, str(e)[:100]), [basis_opt, 'n_triplets==n_features']))
                            continue
                    basis, w = spy.calls[-1]
                    draws = np.random.RandomState(seed).randint(0, len(T), size=(40, 2))
                    a, nt = judge('SCML.fit', est, basis, w, T, draws, 1e-3, 5e-2, 10, 2, ['n_triplets==n_features', basis_opt], viol, wr, d)
                    amb += int(a)
                    evals += 1
                    states += 1
                    trans += 1
                    sigs.add(('minimal', dsn, basis_opt, seed, int((np.asarray(w) > 0).sum())))
        return dict(evals=evals, sigs=sigs, viol=viol, states=states, transitions=trans, ambiguous=amb,
                    sample={'kind': 'n_triplets == n_features', 'datasets': ['S2', 'S3u', 'S5']})
    if spec[0] == 'genbasis':
        # generated bases have n_basis unit-norm rows, for a sweep of n_basis values and seeds
        _, dsn, seed0 = spec
        ds = data.dataset('R', seed0) if dsn == 'R' else data.dataset(dsn)
        d = ds.d
        ncls = len(ds.sizes)
        num_eig = min(ncls - 1, d)
        amb_lda, worst_lda = 0, 0.0
        for name, basis_opt, nbs in (('SCML', 'triplet_diffs', (d, 2 * d + 1, 3 * d, 5 * d)),
                                     ('SCML_Supervised', 'triplet_diffs', (d, 2 * d + 1, 4 * d)),
                                     ('SCML_Supervised', 'lda', sorted({2, d + 1, 2 * d + 2, 3 * d + 1, 2 * num_eig * 3,
                                                                     2 * d + 1, 3 * num_eig + 1, 5 * num_eig + (num_eig - 1)}))):   # incl. n_basis % num_eig != 0
            for nb in nbs:
                for seed in (0, 1, 2):
                    kw = dict(basis=basis_opt, n_basis=int(nb), max_iter=4, output_iter=2, batch_size=2, random_state=seed)
                    est = ml.SCML(**kw) if name == 'SCML' else ml.SCML_Supervised(k_genuine=2, k_impostor=2, **kw)
                    with Spy() as spy, warnings.catch_warnings():
                        warnings.simplefilter('ignore')
                        try:
                            est.fit(ds.trip.copy()) if name == 'SCML' else est.fit(ds.X.copy(), ds.y.copy())
                        except Exception as e:
                            viol.append(V(name + '.fit', 'raises', 'basis=%s n_basis=%d raised %s: %s' % (basis_opt, nb, type(e).__name__, str(e)[:100]),
                                          [basis_opt]))
                            continue
                    basis, w = spy.calls[-1]
                    evals += 1
                    states += 1
                    trans += 1
                    norms = np.sqrt((basis ** 2).sum(1)) if basis.size else np.array([0.0])
                    if basis.shape != (nb, d) or np.abs(norms - 1).max() > 1e-9:
                        viol.append(V(name + '.fit', 'generated_basis', 'basis=%s, n_basis=%d: generated basis has shape %s and row norms in [%.6g, %.6g]'
                                      % (basis_opt, nb, basis.shape, norms.min(), norms.max()), [basis_opt, 'n_basis=%d' % nb]))
                    if basis_opt == 'lda' and basis.shape == (nb, d):
                        # the rows are the documented local LDA directions (compared as projectors: a direction has no sign)
                        from mc.refmodel import lda_basis
                        Bref, ambig = lda_basis.reference(ds.X, ds.y, int(nb), seed)
                        if ambig:
                            amb_lda += 1
                        else:
                            dev = max(np.abs(np.outer(b, b) - np.outer(r, r)).max() for b, r in zip(basis, Bref))
                            worst_lda = max(worst_lda, dev / 1e-7)
                            if not dev <= 1e-7:
                                viol.append(V(name + '.fit', 'lda_basis_not_documented', "basis='lda', n_basis=%d, random_state=%d: a generated row differs "
                                              'from the unit LDA direction of the documented local sample (projector deviation %.3g)' % (nb, seed, dev),
                                              ['lda', 'n_basis=%d' % nb]))
                    sigs.add((name, dsn, basis_opt, nb, seed))
        return dict(evals=evals, sigs=sigs, viol=viol, states=states, transitions=trans, ambiguous=amb_lda,
                    headroom={'lda_basis_projector_deviation': worst_lda},
                    sample={'kind': 'generated bases', 'dataset': dsn, 'n_basis sweep': 'd .. 5d (triplet_diffs), 2 .. 3d+1 (lda)'})
    if spec[0] == 'bigtrip':
        # more triplets than any evaluation shortcut could tolerate (10 400), noisy labels, many close checkpoints
        ds = data.dataset('S5')
        d = ds.d
        rs = np.random.RandomState(15100)
        X = np.round(ds.X / (2 * np.abs(ds.X).max()) * 64) / 64            # unit-sized, exactly representable
        I = rs.randint(len(X), size=(14000, 3))
        I = I[(I[:, 0] != I[:, 1]) & (I[:, 0] != I[:, 2]) & (I[:, 1] != I[:, 2])][:10400]
        T = X[I]
        dab, dac = ((T[:, 0] - T[:, 1]) ** 2).sum(1), ((T[:, 0] - T[:, 2]) ** 2).sum(1)
        sw = dab > dac
        T[sw] = T[sw][:, [0, 2, 1]]                    # Euclidean-consistent triplets ...
        fl = rs.rand(len(T)) < 0.3
        T[fl] = T[fl][:, [0, 2, 1]]                    # ... 30 % of them flipped (noise: many checkpoints of nearly equal objective)
        Barr = np.vstack([np.eye(d), np.round(np.random.RandomState(11).randn(2 * d, d) * 4) / 4])
        site = 'SCML.fit'
        for (mi, oi, bs) in ((60, 3, 4), (40, 2, 8)):
            for seed in range(6):
                for beta, gamma in ((1e-3, 0.5), (1e-2, 5e-2)):
                    tr = ['10400_triplets', 'beta=%g' % beta, 'gamma=%g' % gamma, 'sched=%d/%d/%d' % (mi, oi, bs), 'seed=%d' % seed]
                    est = ml.SCML(basis=Barr.copy(), n_basis=None, beta=beta, gamma=gamma, max_iter=mi, output_iter=oi, batch_size=bs, random_state=seed)
                    with Spy() as spy, warnings.catch_warnings(record=True) as wr:
                        warnings.simplefilter('always')
                        try:
                            est.fit(T.copy())
                        except Exception as e:
                            viol.append(V(site, 'raises', 'fit raised %s: %s' % (type(e).__name__, str(e)[:120]), tr))
                            continue
                    evals += 1
                    states += 1
                    trans += 1
                    basis, w = spy.calls[-1]
                    draws = np.random.RandomState(seed).randint(0, len(T), size=(mi, bs))
                    a, nontriv = judge(site, est, basis, w, T, draws, beta, gamma, oi, bs, tr, viol, wr, d)
                    amb += int(a)
                    if nontriv:
                        sigs.add(('bigtrip', mi, oi, bs, seed, beta, int((np.asarray(w) > 0).sum())))
        return dict(evals=evals, sigs=sigs, viol=viol, states=states, transitions=trans, ambiguous=amb,
                    sample={'learner': 'SCML', 'triplets': len(T), 'basis': 'array', 'schedules': [[60, 3, 4], [40, 2, 8]], 'seeds': list(range(6))})
    if spec[0] == 'inplace':
        # the caller reuses ONE training array: fit, overwrite its content in place, fit again - the second model is the model of the
        # second content (generated bases included)
        for dsn in ('S3u', 'S5'):
            ds = data.dataset(dsn)
            d = ds.d
            for basis_opt, nb in (('lda', 2 * d + 2), ('triplet_diffs', 4 * d)):
                kw = dict(basis=basis_opt, n_basis=nb, k_genuine=2, k_impostor=3, max_iter=12, output_iter=3, batch_size=4, random_state=1)
                buf = ds.X.copy()
                est = ml.SCML_Supervised(**kw)
                tr = ['basis=' + basis_opt, 'same_array_edited_in_place']
                try:
                    with warnings.catch_warnings():
                        warnings.simplefilter('ignore')
                        est.fit(buf, ds.y.copy())
                        buf *= np.array([1.0, 2.0] + [0.5] * (d - 2))[:d]
                        buf += 0.25
                        est.fit(buf, ds.y.copy())
                        fresh = ml.SCML_Supervised(**kw).fit(buf.copy(), ds.y.copy())
                except Exception as e:
                    viol.append(V('SCML_Supervised.fit', 'raises', 'fit raised %s: %s' % (type(e).__name__, str(e)[:120]), tr))
                    continue
                evals += 3
                states += 2
                trans += 2
                sigs.add(('inplace', dsn, basis_opt))
                if not np.array_equal(est.components_, fresh.components_):
                    viol.append(V('SCML_Supervised.fit', 'stale_after_in_place_edit', 'fit(X), X edited in place, fit(X): the second model differs from a '
                                  'fresh estimator fitted on the same content (max abs difference %.3g): it is not built from the bases / triplets '
                                  'of the data it was given' % (np.abs(est.get_mahalanobis_matrix() - fresh.get_mahalanobis_matrix()).max()
                                                                if est.components_.shape == fresh.components_.shape else np.nan), tr))
        return dict(evals=evals, sigs=sigs, viol=viol, states=states, transitions=trans, ambiguous=amb,
                    sample={'learner': 'SCML_Supervised', 'history': 'fit, edit the array in place, fit', 'bases': ['lda', 'triplet_diffs']})
    if spec[0] == 'intpts':
        # integer-typed points (int64 triplets / int64 X) with a REAL-valued basis: same M as for the float-typed copy
        ds = data.scaled(data.dataset('S3u'), 64.0)
        d = ds.d
        B = np.vstack([np.eye(d), np.array([[0.6, 0.8, 0.0], [0.5, -0.25, 0.75], [0.125, 0.5, -0.625]])])
        for mi, oi, bs in ((120, 40, 4), (60, 60, 3)):
            for seed in (0, 1):
                kw = dict(basis=B.copy(), beta=1e-3, gamma=5e-2, max_iter=mi, output_iter=oi, batch_size=bs, random_state=seed)
                Tf = ds.trip.copy()
                Ti = Tf.astype(np.int64)
                assert np.array_equal(Tf, Ti)
                res = {}
                for lab, T in (('float64', Tf), ('int64', Ti)):
                    est = ml.SCML(**kw)
                    with Spy() as spy, warnings.catch_warnings(record=True) as wr:
                        warnings.simplefilter('always')
                        try:
                            est.fit(T)
                        except Exception as e:
                            viol.append(V('SCML.fit', 'raises', 'fit on %s triplets with an array basis raised %s: %s'
                                          % (lab, type(e).__name__, str(e)[:100]), [lab]))
                            continue
                    basis, w = spy.calls[-1]
                    draws = np.random.RandomState(seed).randint(0, len(T), size=(mi, bs))
                    if not np.array_equal(basis, B):
                        viol.append(V('SCML.fit', 'basis_not_as_given', 'with %s points the basis in use differs from the array supplied' % lab, [lab]))
                    a, nt = judge('SCML.fit', est, B, w, Tf, draws, 1e-3, 5e-2, oi, bs, ['int_points', lab], viol, wr, d)
                    amb += int(a)
                    res[lab] = est.get_mahalanobis_matrix()
                    evals += 1
                    states += 1
                    trans += 1
                    if nt:
                        sigs.add(('intpts', lab, mi, seed))
                if len(res) == 2 and np.abs(res['float64'] - res['int64']).max() > 1e-9 * max(np.abs(res['float64']).max(), 1e-300):
                    viol.append(V('SCML.fit', 'int_points_differ', 'integer-typed and float-typed copies of the same triplets give different metrics', ['int_points']))
        return dict(evals=evals, sigs=sigs, viol=viol, states=states, transitions=trans, ambiguous=amb,
                    sample={'kind': 'integer-typed points with a real-valued basis', 'dataset': ds.name})
    _, name, dsn, basis_opt, bi, seed0 = spec
    ds = data.dataset('R', seed0) if dsn == 'R' else data.dataset(dsn)
    d = ds.d
    beta, gamma = BG[bi]
    site = name + '.fit'
    Barr = np.vstack([np.eye(d), np.round(np.random.RandomState(11).randn(2 * d, d) * 4) / 4])
    for (mi, oi, bs) in SCHED:
        for seed in (0, 1, 2):
            tr = ['basis=' + basis_opt, 'beta=%g' % beta, 'gamma=%g' % gamma, 'sched=%d/%d/%d' % (mi, oi, bs)]
            bval = Barr.copy() if basis_opt == 'array' else basis_opt
            kw = dict(basis=bval, beta=beta, gamma=gamma, max_iter=mi, output_iter=oi, batch_size=bs, random_state=seed)
            if basis_opt == 'triplet_diffs':
                kw['n_basis'] = 4 * d
            if basis_opt == 'lda':
                kw['n_basis'] = 2 * d + 2
            for rep in ('first', 'refit'):
                if rep == 'first':
                    est = (ml.SCML(**kw) if name == 'SCML' else ml.SCML_Supervised(k_genuine=2, k_impostor=3, **kw))
                from checks.c08_supervised import Capture
                with Spy() as spy, Capture(ml.scml._BaseSCML) as cap, warnings.catch_warnings(record=True) as wr:
                    warnings.simplefilter('always')
                    try:
                        if name == 'SCML':
                            est.fit(ds.trip.copy())
                        else:
                            est.fit(ds.X.copy(), ds.y.copy())
                    except Exception as e:
                        viol.append(V(site, 'raises', 'fit raised %s: %s' % (type(e).__name__, str(e)[:120]), tr + [rep]))
                        break
                evals += 1
                states += 1
                trans += 1
                basis, w = spy.calls[-1]
                T = cap.seen[0][0]
                if basis_opt == 'array':
                    if not np.array_equal(bval, Barr):
                        viol.append(V(site, 'mutates_basis', 'the basis array given by the caller was modified', tr + [rep]))
                        bval[...] = Barr
                    if not np.array_equal(basis, Barr):
                        viol.append(V(site, 'basis_not_as_given', 'the basis in use differs from the array supplied', tr + [rep]))
                else:
                    nb = kw['n_basis']
                    norms = np.sqrt((basis ** 2).sum(1))
                    if basis.shape != (nb, d) or np.abs(norms - 1).max() > 1e-9:
                        viol.append(V(site, 'generated_basis', 'generated basis has shape %s and row norms in [%.6g, %.6g]; expected %d unit rows'
                                      % (basis.shape, norms.min(), norms.max(), nb), tr + [rep]))
                draws = np.random.RandomState(seed).randint(0, len(T), size=(mi, bs))
                a, nontriv = judge(site, est, basis, w, T, draws, beta, gamma, oi, bs, tr + [rep], viol, wr, d)
                amb += int(a)
                if nontriv:
                    sigs.add((name, dsn, basis_opt, bi, mi, oi, bs, seed, int((np.asarray(w) > 0).sum())))
    return dict(evals=evals, sigs=sigs, viol=viol, states=states, transitions=trans, ambiguous=amb,
                sample={'learner': name, 'dataset': dsn, 'basis': basis_opt, 'beta': beta, 'gamma': gamma, 'schedules': SCHED, 'seeds': [0, 1, 2]})
