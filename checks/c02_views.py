"""C02 - all views of the learned metric agree with M = L^T L (DESIGN.md section 5, C02).

E1: fitted-model family F (each model reached twice: by a fresh fit, and by a refit of an object that was first
fitted on other data and queried through every view) x all ordered query pairs x a representation alphabet.
"""
import warnings

import numpy as np

from mc import env  # noqa: F401
from mc import data, zoo, exact

PID = 'C02'
LEVEL = 'exploration'
RULE = ('family F x {fresh fit, refit after a fit on another dataset whose views were all queried} x 144 ordered query '
        'pairs x views {pair_distance, score_pairs, get_metric plain/squared, ||transform(x)-transform(x\')||, '
        'sqrt((x-x\')^T M (x-x\')), transform, get_mahalanobis_matrix} x representations {float64 C, nested list, '
        'Fortran order, strided non-contiguous view, integer dtype, single-pair batch, indices + ndarray preprocessor, '
        'indices + callable preprocessor}; signature = (estimator, configuration, dataset, history, rank); '
        'non-trivial = non-zero components_')
ASSUMPTIONS = ['Reference: exact rational d^2 and exact X L^T, L^T L from the float entries of components_; each view '
               'is compared within its own backward-error bound (BLAS may sum in another order for other layouts, so '
               'representation variants are compared within the bound, not bit-exactly).']


def V(site, clause, msg, triggers=(), **detail):
    return dict(site=site, clause=clause, msg=msg, triggers=list(triggers), detail=detail)


def cases(tier, seed):
    out = []
    for n, lab, o, dsn in zoo.family(tier, seed):
        for hist in ('fresh', 'refit'):
            out.append(('%s/%s/%s/%s' % (n, lab, dsn, hist), (n, lab, o, dsn, seed, hist)))
    # a transformation whose columns live on very different scales (what a learner that builds L directly returns for
    # features in very different units): NCA stopped at its array initialisation (tol so large that no step is taken)
    for dsn in ('S3u', 'S5'):
        d = data.SPECS[dsn][0]
        rs = np.random.RandomState(77 + d)
        L0 = (np.round(rs.randn(d, d) * 8) / 8 + np.eye(d)) * (2.0 ** np.linspace(-27, 27, d))[None, :]
        out.append(('NCA/init=array_mixed_scales/%s/fresh' % dsn, ('NCA', 'init=array_mixed_scales', {'init': L0, 'n_components': None, 'tol': 1e10}, dsn, seed, 'fresh')))
    return out


def spec_to_json(spec):
    n, lab, o, dsn, seed, h = spec
    return [n, lab, {k: (v.tolist() if isinstance(v, np.ndarray) else v) for k, v in o.items()}, dsn, seed, h]


def spec_from_json(j):
    n, lab, o, dsn, seed, h = j
    return (n, lab, zoo.retype(lab, {k: (np.array(v) if isinstance(v, list) else v) for k, v in o.items()}), dsn, seed, h)


def touch_all_views(est, ds):
    Q = data.query_points(ds, est.components_)
    pairs = np.array([[Q[i], Q[j]] for i in range(4) for j in range(4)])
    est.pair_distance(pairs)
    est.pair_score(pairs)
    est.score_pairs(pairs)
    est.get_metric()(Q[1], Q[2])
    est.get_mahalanobis_matrix()
    est.transform(Q)


def run_case(spec):
    name, lab, over, dsn, seed, hist = spec
    ds = data.dataset(dsn, seed) if dsn == 'R' else data.dataset(dsn)
    warnings.simplefilter('ignore')
    d = ds.d
    try:
        # preprocessor variants need the query points as preprocessor; formed training data ignores it
        if hist == 'fresh':
            est = zoo.fit(name, ds, **over)
        else:
            other = data.dataset('S2' if dsn != 'S2' else 'S3')
            o2 = {k: v for k, v in over.items() if not isinstance(v, np.ndarray)}    # arrays are tied to d
            if o2.get('n_components') and o2['n_components'] > other.d:
                o2['n_components'] = other.d
            if name == 'LFDA' and o2.get('k') and o2['k'] >= other.d:
                o2['k'] = None
            est = zoo.make(name, other, **o2)
            est.fit(*zoo.train_args(name, other))
            touch_all_views(est, other)
            p = zoo.base_params(name, ds)
            p.update(over)
            est.set_params(**p)
            est.fit(*zoo.train_args(name, ds))
    except Exception as e:
        return dict(evals=0, sigs=[], viol=[], stats={'fit_failed(C03)': 1},
                    sample={'model': '%s %s on %s (%s)' % (name, lab, dsn, hist), 'fit': 'failed: %s' % type(e).__name__})
    L = np.asarray(est.components_)
    if np.iscomplexobj(L) or not np.isfinite(L).all():
        return dict(evals=0, sigs=[], viol=[], stats={'components_not_real_finite(C03)': 1})
    k = L.shape[0]
    Q = data.query_points(ds, L)
    nq = len(Q)
    site = name
    tr = [hist] + (['rank_deficient'] if k < d else [])
    viol = []
    Lf = exact.fmat(L)
    Qf = [exact.fvec(q) for q in Q]
    pairs = np.array([[Q[i], Q[j]] for i in range(nq) for j in range(nq)])
    ref2 = np.zeros((nq, nq), dtype=object)
    ref = np.zeros((nq, nq))
    tol = np.zeros((nq, nq))
    sc = np.zeros((nq, nq))
    for i in range(nq):
        for j in range(i, nq):
            ref2[i, j] = ref2[j, i] = exact.d2_exact(Lf, Qf[i], Qf[j])
            ref[i, j] = ref[j, i] = exact.sqrt_float(ref2[i, j])
            sc[i, j] = sc[j, i] = exact.scale_abs(L, Q[i], Q[j])
    cst = 8.0 * (k + d + 2) * exact.EPS
    tol = cst * sc + 1e-300
    headroom = {'distance': 0.0, 'transform': 0.0, 'M': 0.0, 'quadform': 0.0}
    n_eval = 0

    def cmp(vname, M, tolM=tol, refM=ref, key='distance'):
        nonlocal n_eval
        M = np.asarray(M, dtype=float).reshape(refM.shape)
        n_eval += M.size
        if not np.isfinite(M).all():
            viol.append(V(site, 'view_value', '%s is not finite' % vname, tr, view=vname))
            return
        ratio = np.abs(M - refM) / tolM
        headroom[key] = max(headroom[key], float(ratio.max()))
        if (ratio > 1).any():
            ix = np.unravel_index(np.argmax(ratio), ratio.shape)
            viol.append(V(site, 'view_value', '%s = %r but the exact value is %r (%.3g x tolerance) at index %s of the query alphabet'
                          % (vname, M[ix], refM[ix], ratio[ix], tuple(int(x) for x in ix)), tr, view=vname))

    D = est.pair_distance(pairs)
    cmp('pair_distance', D)
    for size in (4096, 8192 + 5, 8192 + 1, 2048 + 1):          # one call on many pairs (a multiple of plausible block sizes, and not)
        reps = -(-size // len(pairs))
        bigd = est.pair_distance(np.tile(pairs, (reps, 1, 1))[:size])
        ix = np.arange(size) % len(pairs)
        dev = np.abs(bigd - ref.ravel()[ix])
        dev[~np.isfinite(bigd)] = np.inf
        pick = np.array([bigd[ix == k_][np.argmax(dev[ix == k_])] for k_ in range(len(pairs))])
        cmp('pair_distance(batch of %d pairs)' % size, pick)
    with warnings.catch_warnings(record=True) as w:
        warnings.simplefilter('always')
        sp = est.score_pairs(pairs)
    if not any(issubclass(x.category, FutureWarning) for x in w):
        viol.append(V(site, 'score_pairs_warning', 'score_pairs did not emit a FutureWarning', tr))
    cmp('score_pairs', sp)
    cmp('pair_distance(nested list)', est.pair_distance(pairs.tolist()))
    cmp('pair_distance(Fortran order)', est.pair_distance(np.asfortranarray(pairs)))
    wide = np.zeros((2 * len(pairs), 2, 2 * d))
    wide[::2, :, ::2] = pairs
    cmp('pair_distance(strided view)', est.pair_distance(wide[::2, :, ::2]))
    cmp('pair_distance(single-pair batches)', [est.pair_distance(p[None])[0] for p in pairs])
    metric = est.get_metric()
    cmp('get_metric()', [metric(p[0], p[1]) for p in pairs])
    cmp('get_metric()(list args)', [metric(p[0].tolist(), p[1].tolist()) for p in pairs])
    sq = np.array([metric(p[0], p[1], squared=True) for p in pairs]).reshape(nq, nq)
    ref2f = np.array([[float(x) for x in row] for row in ref2])
    tol2 = 2 * cst * sc * sc * 1.5 + 1e-300
    cmp('get_metric()(squared=True)', sq, tol2, ref2f)
    # preprocessor forms: separately fitted objects (the preprocessor is fixed at fit time); each is compared with
    # the exact reference of ITS OWN components_ (LFDA's ARPACK start vector may flip signs between fits)
    idx = np.array([[i, j] for i in range(nq) for j in range(nq)])

    def own_refs(e):
        Lx = np.asarray(e.components_)
        if np.array_equal(Lx, L):
            return ref, tol, Lx
        if Lx.shape != L.shape or np.iscomplexobj(Lx) or not np.isfinite(Lx).all():
            return None, None, Lx
        Lxf = exact.fmat(Lx)
        r = np.zeros((nq, nq))
        t = np.zeros((nq, nq))
        for i in range(nq):
            for j in range(i, nq):
                r[i, j] = r[j, i] = exact.sqrt_float(exact.d2_exact(Lxf, Qf[i], Qf[j]))
                t[i, j] = t[j, i] = cst * exact.scale_abs(Lx, Q[i], Q[j]) + 1e-300
        return r, t, Lx
    T3 = L3 = None
    try:
        neg = idx - nq                                     # the same pairs addressed with negative indices (X[indices] semantics)
        mixed = np.where((np.arange(idx.size).reshape(idx.shape) % 3) == 0, neg, idx)
        for vname, pre, ind in (('ndarray', Q, idx), ('nested list', Q.tolist(), idx.astype(np.int8)),
                                ('callable', (lambda ids: Q[ids]), idx.tolist()),
                                ('ndarray, negative indices', Q, mixed), ('nested list, negative indices', Q.tolist(), neg)):
            e2 = zoo.make(name, ds, **dict(over, preprocessor=pre))
            e2.fit(*zoo.train_args(name, ds))
            r2, t2, L2 = own_refs(e2)
            if r2 is not None:
                cmp('pair_distance(indices + %s preprocessor)' % vname, e2.pair_distance(ind), t2, r2)
            if vname == 'callable':
                T3, L3 = e2.transform(np.arange(nq)), L2
    except Exception as e:
        viol.append(V(site, 'preprocessor_view', 'query through a preprocessor raised %s: %s' % (type(e).__name__, e), tr))
    # transform: exact X L^T entrywise
    T = est.transform(Q)
    if T.shape != (nq, k):
        viol.append(V(site, 'transform_shape', 'transform returned shape %s, expected %s' % (T.shape, (nq, k)), tr))
    else:
        LTf = exact.transpose(Lf)
        Tref = exact.matmul_exact(Qf, LTf) if k else []
        Tr = np.array([[float(x) for x in row] for row in Tref]).reshape(nq, k)
        Ttol = 8.0 * (d + 2) * exact.EPS * np.abs(Q).dot(np.abs(L).T) + 1e-300
        for vname, TT in (('transform', T), ('transform(nested list)', est.transform(Q.tolist())),
                          ('transform(Fortran order)', est.transform(np.asfortranarray(Q)))):
            if k:
                cmp(vname, TT, Ttol, Tr, 'transform')
        if k and T3 is not None and L3.shape == L.shape and np.isfinite(L3).all():
            Tr3 = np.array([[float(x) for x in row] for row in exact.matmul_exact(Qf, exact.transpose(exact.fmat(L3)))])
            cmp('transform(indices + callable preprocessor)', T3,
                8.0 * (d + 2) * exact.EPS * np.abs(Q).dot(np.abs(L3).T) + 1e-300, Tr3.reshape(nq, k), 'transform')
        # distance between embedded points (cancellation scale is |L||x| + |L||x'|)
        if k:
            E = np.sqrt(((T[:, None, :] - T[None, :, :]) ** 2).sum(-1))
            a = np.sqrt(((np.abs(Q).dot(np.abs(L).T)) ** 2).sum(1))
            cmp('||transform(x)-transform(x\')||', E, cst * 2 * (a[:, None] + a[None, :]) + tol)
    # integer-valued points, integer dtype
    Qi = np.array([np.zeros(d), np.arange(1, d + 1), np.arange(d, 0, -1) * 3, -np.ones(d) * 7], dtype=np.int64)
    pi = np.array([[Qi[i], Qi[j]] for i in range(4) for j in range(4)])
    di_int = est.pair_distance(pi)
    refi = np.array([exact.sqrt_float(exact.d2_exact(Lf, exact.fvec(p[0]), exact.fvec(p[1]))) for p in pi])
    toli = cst * np.array([exact.scale_abs(L, p[0], p[1]) for p in pi]) + 1e-300
    cmp('pair_distance(int64 array)', di_int, toli, refi)
    cmp('pair_distance(nested list of ints)', est.pair_distance(pi.tolist()), toli, refi)
    cmp('get_metric()(int arrays)', [metric(p[0], p[1]) for p in pi], toli, refi)
    Qu = np.array([np.zeros(d), np.arange(1, d + 1) * 20, np.arange(d, 0, -1) * 7, np.full(d, 250)], dtype=np.uint8)
    pu = np.array([[Qu[i], Qu[j]] for i in range(4) for j in range(4)])
    refu = np.array([exact.sqrt_float(exact.d2_exact(Lf, exact.fvec(p[0]), exact.fvec(p[1]))) for p in pu])
    tolu = cst * np.array([exact.scale_abs(L, p[0].astype(float), p[1].astype(float)) for p in pu]) + 1e-300
    cmp('pair_distance(uint8 array)', est.pair_distance(pu), tolu, refu)
    cmp('get_metric()(uint8 arrays)', [metric(p[0], p[1]) for p in pu], tolu, refu)
    # float32 / float16 points (values exactly representable): the arithmetic must still be carried out in double precision
    for dtf, pts in ((np.float32, pi), (np.float16, pi), (np.float32, pi.astype(float) * 2.0 ** 62)):
        pf = pts.astype(dtf)
        if not np.isfinite(pf.astype(float)).all():
            continue
        reff = np.array([exact.sqrt_float(exact.d2_exact(Lf, exact.fvec(p[0].astype(float)), exact.fvec(p[1].astype(float)))) for p in pf])
        tolf = cst * np.array([exact.scale_abs(L, p[0].astype(float), p[1].astype(float)) for p in pf]) + 1e-300
        lab_ = '%s%s' % (np.dtype(dtf).name, ', coordinates ~2^64' if pts is not pi else '')
        cmp('pair_distance(%s array)' % lab_, est.pair_distance(pf), tolf, reff)
        cmp('get_metric()(%s arrays)' % lab_, [metric(p[0], p[1]) for p in pf], tolf, reff)
    for dtq in (np.uint16, np.uint32, np.uint64, np.int8):
        if np.dtype(dtq).kind == 'i':
            pq = (pu // 2).astype(dtq)                     # fits a signed byte
            refq = np.array([exact.sqrt_float(exact.d2_exact(Lf, exact.fvec(p[0]), exact.fvec(p[1]))) for p in pq])
            tolq = cst * np.array([exact.scale_abs(L, p[0].astype(float), p[1].astype(float)) for p in pq]) + 1e-300
        else:
            pq, refq, tolq = pu.astype(dtq), refu, tolu
        cmp('pair_distance(%s array)' % np.dtype(dtq).name, est.pair_distance(pq), tolq, refq)
        cmp('get_metric()(%s arrays)' % np.dtype(dtq).name, [metric(p[0], p[1]) for p in pq], tolq, refq)
    # the same uint8 points held by a preprocessor (array, and callable returning uint8 rows), addressed by index pairs:
    # separately fitted objects, each compared with the exact reference of its own components_
    iu = np.array([[i, j] for i in range(4) for j in range(4)])
    try:
        for vname, pre in (('uint8 ndarray', Qu.copy()), ('uint8-returning callable', (lambda ids: Qu[np.asarray(ids)])),
                           ('uint16 ndarray', Qu.astype(np.uint16))):
            e4 = zoo.make(name, ds, **dict(over, preprocessor=pre))
            e4.fit(*zoo.train_args(name, ds))
            L4 = np.asarray(e4.components_)
            if L4.shape != L.shape or np.iscomplexobj(L4) or not np.isfinite(L4).all():
                continue
            L4f = exact.fmat(L4)
            ref4 = np.array([exact.sqrt_float(exact.d2_exact(L4f, exact.fvec(p[0]), exact.fvec(p[1]))) for p in pu])
            tol4 = cst * np.array([exact.scale_abs(L4, p[0].astype(float), p[1].astype(float)) for p in pu]) + 1e-300
            cmp('pair_distance(indices + %s preprocessor)' % vname, e4.pair_distance(iu), tol4, ref4)
            if k:
                T4 = e4.transform(np.arange(4))
                Tr4 = np.array([[float(x) for x in row] for row in exact.matmul_exact([exact.fvec(q) for q in Qu], exact.transpose(L4f))])
                cmp('transform(indices + %s preprocessor)' % vname, T4,
                    8.0 * (d + 2) * exact.EPS * np.abs(Qu.astype(float)).dot(np.abs(L4).T) + 1e-300, Tr4.reshape(4, k), 'transform')
    except Exception as e:
        viol.append(V(site, 'preprocessor_view', 'query through an integer-typed preprocessor raised %s: %s' % (type(e).__name__, e), tr))
    if k:
        Ti = est.transform(Qi)
        Tri = np.array([[float(x) for x in row] for row in exact.matmul_exact([exact.fvec(q) for q in Qi], exact.transpose(Lf))])
        cmp('transform(int64 array)', Ti, 8.0 * (d + 2) * exact.EPS * np.abs(Qi).dot(np.abs(L).T) + 1e-300, Tri, 'transform')
    # M = L^T L entrywise, symmetric, PSD; quadratic form with the returned M
    M_first = est.get_mahalanobis_matrix()
    M_first[...] = -1.0                      # the caller overwrites what it was handed ...
    M = est.get_mahalanobis_matrix()        # ... and asks again: must still be L^T L
    if M.shape != (d, d):
        viol.append(V(site, 'M_shape', 'get_mahalanobis_matrix returned shape %s' % (M.shape,), tr))
    else:
        Mref = exact.matmul_exact(exact.transpose(Lf), Lf) if k else [[0] * d for _ in range(d)]
        Mr = np.array([[float(x) for x in row] for row in Mref]).reshape(d, d)
        Mtol = 8.0 * (k + 2) * exact.EPS * np.abs(L).T.dot(np.abs(L)) + 1e-300
        cmp('get_mahalanobis_matrix()', M, Mtol, Mr, 'M')
        if not np.array_equal(M, M.T) and np.abs(M - M.T).max() > Mtol.max():
            viol.append(V(site, 'M_symmetric', 'M is not symmetric (max asymmetry %.3g)' % np.abs(M - M.T).max(), tr))
        lam = np.linalg.eigvalsh((M + M.T) / 2)
        if lam.min() < -8 * d * exact.EPS * max(np.abs(M).max(), 1e-300):
            viol.append(V(site, 'M_psd', 'M has eigenvalue %.3g' % lam.min(), tr))
        Mf = exact.fmat(M)
        qf = np.array([[float(exact.quad_exact(Mf, Qf[i], Qf[j])) for j in range(nq)] for i in range(nq)])
        cmp('(x-x\')^T M (x-x\')', qf, 8.0 * (k + 2) * exact.EPS * sc * sc * 2 + 1e-300, ref2f, 'quadform')
    rank = int(np.linalg.matrix_rank(L)) if L.size else 0
    nontrivial = L.size > 0 and np.abs(L).max() > 0
    return dict(evals=n_eval, sigs=[(name, lab, dsn, hist, rank)] if nontrivial else [], viol=viol, headroom=headroom,
                stats={'models': 1},
                sample={'model': '%s(%s) on %s, history=%s' % (name, lab, dsn, hist), 'components_shape': list(L.shape),
                        'query_pairs': nq * nq, 'views_compared': 22})
