"""C01 - the learned distance is a finite pseudo-metric (DESIGN.md section 5, C01).

E1: fitted-model family F x ALL ordered pairs and triples of the 12-point query alphabet Q(d); every view
(pair_distance batched / single-pair / one large tiled batch, pair_score, get_metric) against the exact rational
distance computed from the float entries of components_.
"""
import warnings

import numpy as np

from mc import env  # noqa: F401
from mc import data, zoo, exact

PID = 'C01'
LEVEL = 'exploration'
RULE = ('fitted-model family F (17 estimators x one configuration per option value + rank-deficient configurations x '
        'datasets) x all 144 ordered pairs / 1728 ordered triples of the 12-point query alphabet (duplicates, 1e+-100 '
        'magnitudes, far points, null-space direction, last-bit neighbour); signature = (estimator, configuration, '
        'dataset, rank of components_); non-trivial = components_ has at least one non-zero row')
ASSUMPTIONS = ['Reference: exact rational evaluation of sum_k (L_k . (u-v))^2 over the float entries of components_; '
               'tolerance 8(k+d+2) eps || |L| |u-v| ||_2 per distance (backward error bound of the float evaluation).',
               'Coverage is the finite query alphabet; nothing is claimed about other real points.']
BIG = 2 ** 16 + 2 ** 13 + 7     # one batch larger than any plausible internal block size (> 65536), not a multiple of a power of two


def V(site, clause, msg, triggers=(), **detail):
    return dict(site=site, clause=clause, msg=msg, triggers=list(triggers), detail=detail)


def cases(tier, seed):
    return [('%s/%s/%s' % (n, lab, dsn), (n, lab, o, dsn, seed)) for n, lab, o, dsn in zoo.family(tier, seed)]


def spec_to_json(spec):
    n, lab, o, dsn, seed = spec
    return [n, lab, {k: (v.tolist() if isinstance(v, np.ndarray) else v) for k, v in o.items()}, dsn, seed]


def spec_from_json(j):
    n, lab, o, dsn, seed = j
    return (n, lab, zoo.retype(lab, {k: (np.array(v) if isinstance(v, list) else v) for k, v in o.items()}), dsn, seed)


def run_case(spec):
    name, lab, over, dsn, seed = spec
    ds = data.dataset(dsn, seed) if dsn == 'R' else data.dataset(dsn)
    warnings.simplefilter('ignore')
    try:
        est = zoo.fit(name, ds, **over)
    except Exception as e:
        # fitting failures belong to C03 (C14 for the diagonal MMC variant); nothing to judge here
        return dict(evals=0, sigs=[], viol=[], stats={'fit_failed': 1},
                    sample={'model': '%s %s on %s' % (name, lab, dsn), 'fit': 'failed: %s' % type(e).__name__})
    L = np.asarray(est.components_)
    if np.iscomplexobj(L) or not np.isfinite(L).all():
        return dict(evals=0, sigs=[], viol=[], stats={'components_not_real_finite(C03)': 1})
    Q = data.query_points(ds, L)
    nq = len(Q)
    site = name
    viol = []
    Lf = exact.fmat(L)
    Qf = [exact.fvec(q) for q in Q]
    pairs = np.array([[Q[i], Q[j]] for i in range(nq) for j in range(nq)])
    D = est.pair_distance(pairs).reshape(nq, nq)
    S = est.pair_score(pairs).reshape(nq, nq)
    metric = est.get_metric()
    headroom = 0.0
    tol = np.zeros((nq, nq))
    ref = np.zeros((nq, nq))
    for i in range(nq):
        for j in range(i, nq):
            d2 = exact.d2_exact(Lf, Qf[i], Qf[j])
            ref[i, j] = ref[j, i] = exact.sqrt_float(d2)
            tol[i, j] = tol[j, i] = exact.dist_tol(L, Q[i], Q[j]) + 1e-300
    tr = ['rank_deficient'] if (L.shape[0] < ds.d or (L.size and np.linalg.matrix_rank(L) < ds.d)) else []

    def swapped_mismatch(batch, values):
        # Symmetry inside a large batch: the SAME batch with the two points of every pair swapped must give the same
        # values bit for bit, row by row.  (Comparing row r with the row that holds the swapped pair would also compare
        # two row positions of one BLAS call; the last row of an internal OpenBLAS block is rounded differently -
        # measured: rows 13826 and 27653 of a 73735 x 8 times 8 x 1 product - which is not the library's arithmetic.)
        sw = est.pair_distance(np.ascontiguousarray(batch[:, ::-1]))
        bad = np.where(~((sw == values) | (np.isnan(sw) & np.isnan(values))))[0]
        if len(bad):
            r = int(bad[0])
            return (r % (nq * nq)) // nq, (r % (nq * nq)) % nq, values[r], sw[r], r
        return False

    def views():
        yield 'pair_distance', D, None
        single = np.array([[est.pair_distance(pairs[i * nq + j][None])[0] for j in range(nq)] for i in range(nq)])
        yield 'pair_distance(single-pair batches)', single, None
        reps = -(-BIG // len(pairs))
        tiled = np.tile(pairs, (reps, 1, 1))
        # sizes that ARE multiples of every plausible block size, and sizes one past / one short of a power of two (a one-pair tail block)
        for exact_size in (4096, 2 ** 15, 2 ** 13 + 1, 2 ** 14 + 1, 2 ** 15 + 1, 2 ** 16 + 1, 2 ** 13 - 1, 2 ** 10 + 1):
            part = est.pair_distance(tiled[:exact_size])
            idx_p = np.arange(exact_size) % (nq * nq)
            devp = np.abs(part - ref.ravel()[idx_p])
            devp[~np.isfinite(part)] = np.inf
            worst_p = np.zeros(nq * nq)
            np.maximum.at(worst_p, idx_p, devp)
            pick = np.array([part[idx_p == k_][np.argmax(devp[idx_p == k_])] for k_ in range(nq * nq)])
            yield 'pair_distance(batch of %d pairs)' % exact_size, pick.reshape(nq, nq), swapped_mismatch(tiled[:exact_size], part)
        big = est.pair_distance(tiled[:BIG])
        # every copy of a pair inside the large batch must satisfy the same bound: fold by worst deviation
        folded = np.full(nq * nq, np.nan)
        idx = np.arange(BIG) % (nq * nq)
        refflat = ref.ravel()
        dev = np.abs(big - refflat[idx])
        dev[~np.isfinite(big)] = np.inf
        worst = np.zeros(nq * nq)
        np.maximum.at(worst, idx, dev)
        order = np.argsort(dev, kind='stable')
        last = np.full(nq * nq, -1)
        last[idx[order]] = order                     # for every pair: position of its WORST copy inside the large batch
        folded = big[last]
        yield 'pair_distance(batch of %d pairs)' % BIG, folded.reshape(nq, nq), swapped_mismatch(tiled[:BIG], big)
        yield 'get_metric()', np.array([[metric(Q[i], Q[j]) for j in range(nq)] for i in range(nq)]), None
        # the same function object called with two REUSED buffers that are overwritten in place between calls
        ub, vb = np.empty(ds.d), np.empty(ds.d)
        R = np.zeros((nq, nq))
        for i in range(nq):
            for j in range(nq):
                ub[:] = Q[i]
                vb[:] = Q[j]
                R[i, j] = metric(ub, vb)
        yield 'get_metric() with reused argument buffers', R, None

    n_eval = 0
    for vname, M, swm in views():
        n_eval += M.size
        if not np.isfinite(M).all():
            i, j = np.argwhere(~np.isfinite(M))[0]
            viol.append(V(site, 'finite', '%s is %r for query pair (%d,%d)' % (vname, M[i, j], i, j), tr, view=vname,
                          u=Q[i].tolist(), v=Q[j].tolist()))
            continue
        if (M < 0).any():
            i, j = np.argwhere(M < 0)[0]
            viol.append(V(site, 'non_negative', '%s = %r < 0 for pair (%d,%d)' % (vname, M[i, j], i, j), tr, view=vname))
        if (np.diag(M) != 0).any():
            i = int(np.argwhere(np.diag(M) != 0)[0][0])
            viol.append(V(site, 'identity', '%s: d(x,x) = %r != 0 for query point %d' % (vname, M[i, i], i), tr, view=vname))
        # exact duplicates in the alphabet: Q[1] and Q[3] are the same point
        if M[1, 3] != 0 or M[3, 1] != 0:
            viol.append(V(site, 'identity', '%s: distance between identical points is %r' % (vname, M[1, 3]), tr, view=vname))
        if swm is not None:
            if swm:
                viol.append(V(site, 'symmetry', '%s: d(x,y)=%r but d(y,x)=%r for pair (%d,%d) [row %d of the batch, same row of the swapped batch]'
                              % (vname, swm[2], swm[3], swm[0], swm[1], swm[4]), tr, view=vname))
        elif not np.array_equal(M, M.T):
            i, j = np.argwhere(M != M.T)[0]
            viol.append(V(site, 'symmetry', '%s: d(x,y)=%r but d(y,x)=%r for pair (%d,%d)' % (vname, M[i, j], M[j, i], i, j),
                          tr, view=vname))
        err = np.abs(M - ref)
        ratio = err / tol
        headroom = max(headroom, float(ratio.max()))
        if (ratio > 1).any():
            i, j = np.unravel_index(np.argmax(ratio), ratio.shape)
            viol.append(V(site, 'value', '%s = %r, exact %r (|err| = %.3g = %.3g x tolerance) for pair (%d,%d)'
                          % (vname, M[i, j], ref[i, j], err[i, j], ratio[i, j], i, j), tr, view=vname,
                          u=Q[i].tolist(), v=Q[j].tolist()))
        # triangle inequality over all ordered triples, slack = sum of the three backward bounds
        lhs = M[:, None, :]                         # d(x,z)    [x, y, z]
        rhs = M[:, :, None] + M[None, :, :]         # d(x,y) + d(y,z)
        slack = tol[:, None, :] + tol[:, :, None] + tol[None, :, :]
        bad = lhs > rhs + slack
        n_eval += bad.size
        if bad.any():
            x, y, z = np.argwhere(bad)[0]
            viol.append(V(site, 'triangle', '%s: d(%d,%d)=%r > d(%d,%d)+d(%d,%d)=%r' % (vname, x, z, M[x, z], x, y, y, z,
                                                                                       M[x, y] + M[y, z]), tr, view=vname))
    # single-precision query points whose coordinates are ~2^63 (their squares fit in float32, the squares of embedded
    # differences need not): the reported distance must still be finite and correct - the arithmetic is double precision
    d_ = ds.d
    base32 = np.array([np.zeros(d_), np.arange(1, d_ + 1), np.arange(d_, 0, -1) * 3, -np.ones(d_) * 7]) * 2.0 ** 62
    p32 = np.array([[base32[i], base32[j]] for i in range(4) for j in range(4)]).astype(np.float32)
    d32 = est.pair_distance(p32)
    m32 = np.array([metric(p[0], p[1]) for p in p32])
    for vname, vals in (('pair_distance(float32 points ~2^63)', d32), ('get_metric()(float32 points ~2^63)', m32)):
        n_eval += vals.size
        if not np.isfinite(vals).all() or (vals < 0).any():
            k_ = int(np.argmax(~np.isfinite(vals) | (vals < 0)))
            viol.append(V(site, 'finite', '%s is %r for pair %d' % (vname, vals[k_], k_), tr, view=vname))
            continue
        for k_, p in enumerate(p32):
            u_, v_ = p[0].astype(float), p[1].astype(float)
            r_ = exact.sqrt_float(exact.d2_exact(Lf, exact.fvec(u_), exact.fvec(v_)))
            if abs(vals[k_] - r_) > exact.dist_tol(L, u_, v_) + 1e-300:
                viol.append(V(site, 'value', '%s = %r, exact %r for pair %d' % (vname, vals[k_], r_, k_), tr, view=vname))
                break
    if not np.array_equal(S, -D):
        viol.append(V(site, 'pair_score', 'pair_score is not exactly -pair_distance', tr))
    Ssingle = np.array([est.pair_score(pairs[k][None])[0] for k in range(0, nq * nq, 7)])
    if not np.array_equal(Ssingle, -np.array([est.pair_distance(pairs[k][None])[0] for k in range(0, nq * nq, 7)])):
        viol.append(V(site, 'pair_score', 'pair_score (single-pair) is not exactly -pair_distance', tr))
    rank = int(np.linalg.matrix_rank(L)) if L.size else 0
    nontrivial = L.size > 0 and np.abs(L).max() > 0
    return dict(evals=n_eval, sigs=[(name, lab, dsn, rank)] if nontrivial else [], viol=viol,
                headroom={'distance_error': headroom},
                stats={'models': 1, 'rank_deficient_models': int(rank < ds.d)},
                sample={'model': '%s(%s) fitted on %s' % (name, lab, dsn), 'components_shape': list(L.shape),
                        'rank': rank, 'query_points': nq, 'ordered_pairs': nq * nq, 'ordered_triples': nq ** 3,
                        'views': 4})
