"""C07 - constraints generated from labels respect the labels (DESIGN.md section 5, C07).

E1: every label vector over a small alphabet x every parameter value x integer seeds, on the real
    Constraints class, against the harness's own rules.
E3: for small instances every answer sequence of the (scripted) random generator; larger ones with a
    bounded number of deviations from the default answer.
"""
import itertools
import warnings

import numpy as np

from mc import env  # noqa: F401
from mc.rng import explore
from metric_learn.constraints import Constraints, wrap_pairs

PID = 'C07'
LEVEL = 'model_checking'
RULE = ('E1: all label vectors over {-1,0,1,2} (pairs/chunks) or {-1,0,1}/{-1,0,1,2} (kNN triplets) up to the tier\'s '
        'length x all listed n_constraints/same_length/n_chunks/chunk_size/k_genuine/k_impostor x seeds {0,1,2} x 3 '
        'point sets; E3: all scripted-RNG answer sequences (complete tree; when the tree exceeds the cap, all sequences with at most '
        'BOUNDS.e3_dev deviations from the default answer). A case is non-trivial when it returns at least one constraint (or raises the documented ValueError); '
        'signature = (kind, multiset of class sizes, #unknown, parameters, counts returned).')
ASSUMPTIONS = ['Coordinates of the neighbour-search point sets are small integers, so squared distances are exact '
               'and ties are genuine ties.',
               'A violation seen only under the scripted generator is reported only when a real integer seed '
               'reproducing the same clause violation is found (G1c).']
BOUNDS = {'quick': dict(pairs_len=6, chunks_len=6, knn_len=6, e3_len=5, e3_cap=1500, e3_dev=1),
          'thorough': dict(pairs_len=7, chunks_len=7, knn_len=7, e3_len=6, e3_cap=8000, e3_dev=2)}


# ----------------------------------------------------------------------------- reference rules
def n_pos_pairs(lab):
    k = lab[lab >= 0]
    _, c = np.unique(k, return_counts=True)
    return int(sum(x * (x - 1) for x in c))       # ordered


def n_neg_pairs(lab):
    k = lab[lab >= 0]
    _, c = np.unique(k, return_counts=True)
    return int(len(k) ** 2 - sum(x * x for x in c))


def V(site, clause, msg, triggers=(), **detail):
    return dict(site=site, clause=clause, msg=msg, triggers=list(triggers), detail=detail)


def lab_triggers(lab):
    t = []
    neg = np.where(lab < 0)[0]
    pos = np.where(lab >= 0)[0]
    if len(neg):
        t.append('has_unknown')
        if len(pos) and neg.min() < pos.max():
            t.append('unknown_before_known')
    return t


def check_pairs_out(lab, out, nc, same_length, warns, site='positive_negative_pairs'):
    v = []
    n = len(lab)
    tr = lab_triggers(lab)
    try:
        a, b, c, d = [np.asarray(x) for x in out]
    except Exception as e:
        return [V(site, 'shape', 'result is not four arrays: %r' % (e,), tr)]
    if not (len(a) == len(b) and len(c) == len(d)):
        return [V(site, 'shape', 'left/right arrays differ in length', tr)]
    for arr in (a, b, c, d):
        if len(arr) and (arr.min() < 0 or arr.max() >= n):
            return [V(site, 'index_range', 'index outside the caller\'s array', tr)]
    if len(a):
        if np.any(lab[a] < 0) or np.any(lab[b] < 0):
            v.append(V(site, 'unknown_in_positive', 'unlabeled point in a positive pair', tr))
        if np.any(lab[a] != lab[b]):
            v.append(V(site, 'positive_diff_label', 'positive pair with different labels', tr))
        if np.any(a == b):
            v.append(V(site, 'identity_pair', 'positive pair joins a point with itself', tr))
        if len(set(zip(a.tolist(), b.tolist()))) != len(a):
            v.append(V(site, 'repeated_pair', 'positive pair repeated', tr))
    if len(c):
        if np.any(lab[c] < 0) or np.any(lab[d] < 0):
            v.append(V(site, 'unknown_in_negative', 'unlabeled point in a negative pair', tr))
        if np.any(lab[c] == lab[d]):
            v.append(V(site, 'negative_same_label', 'negative pair with equal labels', tr))
        if len(set(zip(c.tolist(), d.tolist()))) != len(c):
            v.append(V(site, 'repeated_pair', 'negative pair repeated', tr))
    if len(a) > nc or len(c) > nc:
        v.append(V(site, 'too_many', 'more than n_constraints pairs returned', tr))
    if same_length and len(a) != len(c):
        v.append(V(site, 'same_length', 'same_length=True but %d positive vs %d negative' % (len(a), len(c)), tr))
    if warns is not None:
        few = (len(a) < nc) or (len(c) < nc)
        if few and not any('constraints' in str(w.message) for w in warns):
            v.append(V(site, 'no_warning', 'fewer pairs than requested and no warning', tr))
    return v


def check_chunks_out(lab, out, n_chunks, chunk_size, site='chunks'):
    tr = lab_triggers(lab)
    known = lab[lab >= 0]
    _, cnt = np.unique(known, return_counts=True)
    possible = int(sum(x // chunk_size for x in cnt)) >= n_chunks
    if isinstance(out, Exception):
        if isinstance(out, ValueError) and not possible:
            return []
        if possible:
            return [V(site, 'raises_when_possible', 'raised %s although %d chunks of %d exist'
                      % (type(out).__name__, n_chunks, chunk_size), tr)]
        return [V(site, 'wrong_exception', 'impossible request raised %s, not ValueError' % type(out).__name__, tr)]
    if not possible:
        return [V(site, 'no_error_when_impossible', 'returned chunks although the request is impossible', tr)]
    ch = np.asarray(out)
    v = []
    if ch.shape != lab.shape:
        return [V(site, 'shape', 'chunk array has shape %s' % (ch.shape,), tr)]
    ids = sorted(set(ch[ch >= 0].tolist()))
    if ids != list(range(n_chunks)):
        v.append(V(site, 'n_chunks', 'chunk ids %s, expected 0..%d' % (ids, n_chunks - 1), tr))
    if np.any(ch < -1):
        v.append(V(site, 'chunk_id', 'chunk id below -1', tr))
    for i in ids:
        mem = np.where(ch == i)[0]
        if len(mem) != chunk_size:
            v.append(V(site, 'chunk_size', 'chunk %d has %d members (chunk_size=%d)' % (i, len(mem), chunk_size), tr))
        if np.any(lab[mem] < 0):
            v.append(V(site, 'unknown_in_chunk', 'unlabeled point in a chunk', tr))
        elif len(set(lab[mem].tolist())) > 1:
            v.append(V(site, 'mixed_chunk', 'chunk with members of different classes', tr))
    return v


def knn_sets(D2, a, cand, k):
    """(must, may): indices that must be in any valid k-NN set of a among cand / that may be."""
    d = sorted((D2[a, j], j) for j in cand)
    kth = d[k - 1][0]
    must = {j for dist, j in d if dist < kth}
    may = {j for dist, j in d if dist <= kth}
    return must, may


def check_triplets_out(lab, P, out, kg, ki, site='generate_knntriplets'):
    tr = lab_triggers(lab)
    if isinstance(out, Exception):
        return [V(site, 'raises', 'raised %s: %s' % (type(out).__name__, out), tr)]
    T = np.asarray(out)
    n = len(lab)
    if T.ndim != 2 or T.shape[1] != 3:
        return [V(site, 'shape', 'triplet array has shape %s' % (T.shape,), tr)]
    if T.size and (T.min() < 0 or T.max() >= n):
        return [V(site, 'index_range', 'index outside the caller\'s array', tr)]
    v = []
    if T.size and np.any(lab[T] < 0):
        v.append(V(site, 'unknown_in_triplet', 'unlabeled point in a triplet', tr))
    D2 = ((P[:, None, :] - P[None, :, :]) ** 2).sum(-1)      # exact (small integers)
    rows = {}
    for a, b, c in T.tolist():
        rows.setdefault(a, []).append((b, c))
    known = [i for i in range(n) if lab[i] >= 0]
    total = 0
    bad_lab = bad_nn = bad_comb = False
    for a in known:
        same = [j for j in known if j != a and lab[j] == lab[a]]
        other = [j for j in known if lab[j] != lab[a]]
        kge, kie = min(kg, len(same)), min(ki, len(other))
        total += kge * kie
        got = rows.get(a, [])
        B = sorted(set(b for b, _ in got))
        C = sorted(set(c for _, c in got))
        if any(lab[b] != lab[a] or b == a for b in B) or any(lab[c] == lab[a] or lab[c] < 0 for c in C):
            bad_lab = True
            continue
        if len(B) != kge or len(C) != kie:
            bad_comb = True
            continue
        mustB, mayB = knn_sets(D2, a, same, kge)
        mustC, mayC = knn_sets(D2, a, other, kie)
        if not (mustB <= set(B) <= mayB and mustC <= set(C) <= mayC):
            bad_nn = True
        if sorted(got) != sorted(itertools.product(B, C)):
            bad_comb = True
    extra = [a for a in rows if a not in known]
    if bad_lab:
        v.append(V(site, 'label_roles', 'b not of a\'s class or c not of another known class', tr))
    if bad_nn:
        v.append(V(site, 'not_nearest', 'b / c is not among the k nearest same- / other-class points', tr))
    if bad_comb or extra:
        v.append(V(site, 'combinations', 'the (b, c) combinations of some point are not exactly once each', tr))
    if len(T) != total and not v:
        v.append(V(site, 'count', '%d triplets, expected %d' % (len(T), total), tr))
    return v


# ----------------------------------------------------------------------------- point sets
def point_set(kind, n):
    if kind == 'generic':      # distinct squared distances as far as possible: points on a parabola-like lattice
        return np.array([[i * i + 3 * i, (7 * i * i) % 11 + 2 * i] for i in range(n)], dtype=float)
    if kind == 'dups':         # exact duplicates (indices 0/1 and 2/3 coincide when present)
        base = np.array([[i * i + 3 * i, (7 * i * i) % 11 + 2 * i] for i in range(n)], dtype=float)
        for i in range(1, n, 2):
            base[i] = base[i - 1]
        return base
    if kind == 'line':         # collinear, equidistant: many exact ties
        return np.array([[i, 0] for i in range(n)], dtype=float)
    raise KeyError(kind)


# ----------------------------------------------------------------------------- cases
def label_vectors(alphabet, lo, hi):
    for n in range(lo, hi + 1):
        for t in itertools.product(alphabet, repeat=n):
            yield t


def knn_ok(t):
    lab = np.array(t)
    u, c = np.unique(lab[lab >= 0], return_counts=True)
    return len(u) >= 2 and c.min() >= 2


def cases(tier, seed):
    b = BOUNDS[tier]
    out = []
    # E1 pairs / chunks: one case per label vector (all parameter values inside the case)
    for t in label_vectors((-1, 0, 1, 2), 2, b['pairs_len']):
        lab = np.array(t)
        if n_pos_pairs(lab) >= 1 and n_neg_pairs(lab) >= 1:
            out.append(('pairs/' + ','.join(map(str, t)), ('pairs', t)))
    for t in label_vectors((-1, 0, 1, 2), 1, b['chunks_len']):
        if any(x >= 0 for x in t):
            out.append(('chunks/' + ','.join(map(str, t)), ('chunks', t)))
    seen = set()
    for alph, hi in (((-1, 0, 1), b['knn_len']), ((-1, 0, 1, 2), b['knn_len'] - (1 if tier == 'thorough' else 0))):
        for t in label_vectors(alph, 4, hi):
            if t in seen or not knn_ok(t):
                continue
            seen.add(t)
            out.append(('knn/' + ','.join(map(str, t)), ('knn', t)))
    # E3
    for t in label_vectors((-1, 0, 1), 2, b['e3_len']):
        lab = np.array(t)
        if n_pos_pairs(lab) >= 1 and n_neg_pairs(lab) >= 1:
            out.append(('e3pairs/' + ','.join(map(str, t)), ('e3pairs', t, b['e3_cap'], b['e3_dev'])))
        if any(x >= 0 for x in t):
            out.append(('e3chunks/' + ','.join(map(str, t)), ('e3chunks', t, b['e3_cap'], b['e3_dev'])))
    # class NAMES must not matter: the same kinds of cases with non-contiguous, unordered class names (and -7 as unknown)
    ren = {-1: -7, 0: 9, 1: 4, 2: 6}
    for t in label_vectors((-1, 0, 1, 2), 2, min(5, b['pairs_len'])):
        lab = np.array(t)
        t2 = tuple(ren[x] for x in t)
        if n_pos_pairs(lab) >= 1 and n_neg_pairs(lab) >= 1:
            out.append(('pairs/renamed/' + ','.join(map(str, t2)), ('pairs', t2)))
        if any(x >= 0 for x in t):
            out.append(('chunks/renamed/' + ','.join(map(str, t2)), ('chunks', t2)))
        if len(t) >= 4 and knn_ok(t):
            out.append(('knn/renamed/' + ','.join(map(str, t2)), ('knn', t2)))
    # several DIFFERENT negative labels are all "unknown" (the rule is label < 0, not label == -1)
    for t in label_vectors((-2, -1, 0, 1), 2, min(5, b['pairs_len'])):
        if -2 not in t:
            continue
        lab = np.array(t)
        if n_pos_pairs(lab) >= 1 and n_neg_pairs(lab) >= 1:
            out.append(('pairs/two_unknown_markers/' + ','.join(map(str, t)), ('pairs', t)))
        if any(x >= 0 for x in t):
            out.append(('chunks/two_unknown_markers/' + ','.join(map(str, t)), ('chunks', t)))
        if len(t) >= 4 and knn_ok(t):
            out.append(('knn/two_unknown_markers/' + ','.join(map(str, t)), ('knn', t)))
    # rotating member (G4): one random longer label vector per kind
    rs = np.random.RandomState(7000 + seed)
    t = tuple(int(x) for x in rs.randint(-1, 3, size=b['pairs_len'] + 3))
    lab = np.array(t)
    if n_pos_pairs(lab) >= 1 and n_neg_pairs(lab) >= 1:
        out.append(('pairs/rot/' + ','.join(map(str, t)), ('pairs', t)))
    out.append(('chunks/rot/' + ','.join(map(str, t)), ('chunks', t)))
    if knn_ok(t):
        out.append(('knn/rot/' + ','.join(map(str, t)), ('knn', t)))
    return out


def cost(spec):
    return len(spec[1]) + (5 if spec[0].startswith('e3') else 0)


def shape_sig(lab):
    k = lab[lab >= 0]
    _, c = np.unique(k, return_counts=True)
    return (tuple(sorted(c.tolist())), int((lab < 0).sum()))


def call(f, *a, **k):
    with warnings.catch_warnings(record=True) as w:
        warnings.simplefilter('always')
        try:
            return f(*a, **k), w
        except Exception as e:
            return e, w


def run_case(spec):
    kind, t = spec[0], spec[1]
    lab = np.array(t, dtype=int)
    viol, sigs = [], set()
    evals = 0
    res = dict(sample=None)
    shared = Constraints(lab.copy())      # one object serves every call of the case: a call history
    if kind == 'pairs':
        for nc in (1, 2, 5, 12):
            for same in (False, True):
                for seed in (0, 1, 2):
                    out, w = call(shared.positive_negative_pairs, nc, same_length=same, random_state=seed)
                    evals += 1
                    if isinstance(out, Exception):
                        viol.append(V('positive_negative_pairs', 'raises', '%s: %s' % (type(out).__name__, out),
                                      lab_triggers(lab), nc=nc, same_length=same, seed=seed))
                        continue
                    vs = check_pairs_out(lab, out, nc, same, w)
                    out2, _ = call(Constraints(lab).positive_negative_pairs, nc, same_length=same, random_state=seed)
                    if isinstance(out2, Exception) or any(not np.array_equal(x, y) for x, y in zip(out, out2)):
                        vs.append(V('positive_negative_pairs', 'seed_reproducibility',
                                    'same integer seed gave different constraints on a fresh object and on '
                                    'an object with a call history', lab_triggers(lab)))
                    # wrap_pairs: labels and order
                    X = np.arange(len(lab) * 2, dtype=float).reshape(len(lab), 2)
                    pw, yw = wrap_pairs(X, out)
                    a, b_, c, d = out
                    exp = np.concatenate([np.stack([X[a], X[b_]], 1).reshape(-1, 2, 2),
                                          np.stack([X[c], X[d]], 1).reshape(-1, 2, 2)])
                    if not (np.array_equal(pw, exp)
                            and np.array_equal(yw, np.r_[np.ones(len(a)), -np.ones(len(c))])):
                        vs.append(V('wrap_pairs', 'wrap', 'wrap_pairs does not list positives (+1) then negatives (-1)',
                                    lab_triggers(lab)))
                    for x in vs:
                        x['detail'].update(nc=nc, same_length=same, seed=seed)
                    viol += vs
                    if len(out[0]) + len(out[2]) > 0:
                        sigs.add(('pairs', shape_sig(lab), nc, same, len(out[0]), len(out[2])))
        res['sample'] = {'kind': 'pairs', 'labels': list(t), 'n_constraints': [1, 2, 5, 12], 'same_length': [False, True],
                         'seeds': [0, 1, 2]}
    elif kind == 'chunks':
        for nch in (1, 2, 3):
            for cs in (1, 2, 3):
                for seed in (0, 1, 2):
                    out, w = call(shared.chunks, n_chunks=nch, chunk_size=cs, random_state=seed)
                    evals += 1
                    vs = check_chunks_out(lab, out, nch, cs)
                    if not isinstance(out, Exception):
                        out2, _ = call(Constraints(lab).chunks, n_chunks=nch, chunk_size=cs, random_state=seed)
                        if isinstance(out2, Exception) or not np.array_equal(out, out2):
                            vs.append(V('chunks', 'seed_reproducibility', 'same seed, different chunks (fresh object '
                                        'vs object with a call history)', lab_triggers(lab)))
                    elif check_chunks_out(lab, call(Constraints(lab).chunks, n_chunks=nch, chunk_size=cs,
                                                    random_state=seed)[0], nch, cs) == [] and vs:
                        vs.append(V('chunks', 'seed_reproducibility', 'a fresh object succeeds where the used one '
                                    'raises', lab_triggers(lab)))
                    for x in vs:
                        x['detail'].update(n_chunks=nch, chunk_size=cs, seed=seed)
                    viol += vs
                    sigs.add(('chunks', shape_sig(lab), nch, cs, 'err' if isinstance(out, Exception) else 'ok'))
        res['sample'] = {'kind': 'chunks', 'labels': list(t), 'n_chunks': [1, 2, 3], 'chunk_size': [1, 2, 3]}
    elif kind == 'knn':
        n = len(lab)
        for pk in ('generic', 'dups', 'line'):
            P = point_set(pk, n)
            P0 = P.copy()
            for kg in (1, 2, 3):
                for ki in (1, 2, 3):
                    out, w = call(shared.generate_knntriplets, P, kg, ki)
                    evals += 1
                    vs = check_triplets_out(lab, P, out, kg, ki)
                    if not np.array_equal(P, P0):
                        vs.append(V('generate_knntriplets', 'mutates_input', 'X modified', lab_triggers(lab)))
                    for x in vs:
                        x['detail'].update(points=pk, k_genuine=kg, k_impostor=ki)
                    viol += vs
                    if not isinstance(out, Exception):
                        sigs.add(('knn', shape_sig(lab), pk, kg, ki, len(out)))
        res['sample'] = {'kind': 'knn', 'labels': list(t), 'points': ['generic', 'dups', 'line'],
                         'k_genuine': [1, 2, 3], 'k_impostor': [1, 2, 3]}
    elif kind in ('e3pairs', 'e3chunks'):
        cap, fallback_dev = spec[2], spec[3]
        params = [(1, False), (2, False), (2, True)] if kind == 'e3pairs' else [(1, 1), (1, 2), (2, 1), (2, 2), (3, 2)]
        states = trans = 0
        stats = {'e3_complete_trees': 0, 'e3_deviation_bounded_trees': 0, 'e3_unconfirmed': 0}
        for p in params:
            def run(rng, p=p):
                with warnings.catch_warnings(record=True) as w:
                    warnings.simplefilter('always')
                    if kind == 'e3pairs':
                        return Constraints(lab).positive_negative_pairs(p[0], same_length=p[1], random_state=rng), w
                    return Constraints(lab).chunks(n_chunks=p[0], chunk_size=p[1], random_state=rng), None
            for max_dev in (None, fallback_dev):
                outcomes = set()
                found = []
                st = None
                for script, obs in explore(run, max_dev=max_dev, cap=cap if max_dev is None else None):
                    if script == '__stats__':
                        st = obs
                        break
                    if kind == 'e3pairs':
                        if isinstance(obs, Exception):
                            vs = [V('positive_negative_pairs', 'raises', '%s: %s' % (type(obs).__name__, obs),
                                    lab_triggers(lab))]
                        else:
                            vs = check_pairs_out(lab, obs[0], p[0], p[1], obs[1])
                            outcomes.add(tuple(tuple(np.asarray(x).tolist()) for x in obs[0]))
                    else:
                        o = obs if isinstance(obs, Exception) else obs[0]
                        vs = check_chunks_out(lab, o, p[0], p[1])
                        outcomes.add('err' if isinstance(o, Exception) else tuple(np.asarray(o).tolist()))
                    for x in vs:
                        x['detail'].update(params=p, script=script)
                        found.append(x)
                if st['complete']:
                    break
            evals += st['executions']
            states += st['states']
            trans += st['transitions']
            stats['e3_complete_trees' if st['max_dev'] is None else 'e3_deviation_bounded_trees'] += 1
            sigs.add((kind, shape_sig(lab), p, len(outcomes)))
            # G1c: concretise with a real seed before reporting
            if found:
                clauses = {x['clause'] for x in found}
                confirmed = set()
                for seed in range(300):
                    if kind == 'e3pairs':
                        out, w = call(Constraints(lab).positive_negative_pairs, p[0], same_length=p[1],
                                      random_state=seed)
                        vs = ([V('positive_negative_pairs', 'raises', str(out))] if isinstance(out, Exception)
                              else check_pairs_out(lab, out, p[0], p[1], w))
                    else:
                        out, w = call(Constraints(lab).chunks, n_chunks=p[0], chunk_size=p[1], random_state=seed)
                        vs = check_chunks_out(lab, out, p[0], p[1])
                    for x in vs:
                        if x['clause'] in clauses and x['clause'] not in confirmed:
                            confirmed.add(x['clause'])
                            x['detail'].update(params=p, seed=seed, found_by='scripted RNG, concretised')
                            viol.append(x)
                    if confirmed == clauses:
                        break
                stats['e3_unconfirmed'] += len(clauses - confirmed)
        res.update(states=states, transitions=trans, stats=stats)
        res['sample'] = {'kind': kind, 'labels': list(t), 'params': params, 'executions': evals}
    if not np.array_equal(shared.partial_labels, lab):
        viol.append(V('Constraints', 'mutates_labels', 'partial_labels changed by the calls', lab_triggers(lab)))
    res.update(evals=evals, sigs=sigs, viol=viol)
    return res
