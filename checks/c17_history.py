"""C17 - fitting is deterministic, side-effect free and history independent (DESIGN.md section 5, C17).

E2: per estimator, breadth-first search from the unfitted object over real API calls
  fit(D_a) / fit(D_b: other n and d) / fit(D_a's points with OTHER labels) / fit(indices of D_a through the array preprocessor) / set_params (alternative
  options, array-valued options, two different array preprocessors) / all query methods / get_metric + get_mahalanobis_matrix
  (handles kept) / overwrite the returned matrix / set_threshold / calibrate_threshold / clone / pickle round trip,
states merged on a digest of the complete object state; invariants evaluated after every transition.
"""
import copy
import pickle
import warnings

import numpy as np
from sklearn.base import clone

from mc import env  # noqa: F401
from mc import data, zoo
from mc.bfs import Search
from mc.snapshot import digest

PID = 'C17'
LEVEL = 'model_checking'
RULE = ('one explicit-state search per estimator (17), events as listed in the module docstring, depth 3 (quick) / 4, 5 for the cheap learners '
        '(thorough); invariants: (i) fitted state == state of a FRESH instance fitted with the parameters in force at the '
        'last fit on the data of the last fit (components_, threshold_, n_features_in_, probe distances: bit-identical), '
        '(ii) no argument and no hyper-parameter object is modified by any call, (iii) query calls leave the state digest '
        'unchanged, (iv) handles issued earlier keep returning their original values; distinct_nontrivial = distinct '
        '(event, successor state) pairs')
ASSUMPTIONS = ['States are merged only when the digest of the complete concrete state (all attributes, handles, '
               'harness bookkeeping of the last fit) is equal, so no abstraction can hide a difference.',
               'LFDA is searched on its deterministic dense eigen-solver path (n_components=None); its ARPACK path '
               '(random start vector) is compared through M with tolerance 1e-8 in a separate case.']
BOUNDS = {'quick': dict(depth=3), 'thorough': dict(depth=4, depth_light=5)}
# estimators whose fits are cheap get one more level in the thorough tier
LIGHT = ['Covariance', 'LFDA', 'RCA', 'RCA_Supervised', 'NCA', 'SDML', 'SDML_Supervised', 'MLKR']
DA, DB = 'S3u', 'S2'


def V(site, clause, msg, triggers=(), **detail):
    return dict(site=site, clause=clause, msg=msg, triggers=list(triggers), detail=detail)


# --------------------------------------------------------------------------- parameter alphabets
def param_sets(name):
    """P1: alternative string/number options; PA: array-valued options sized for D_a."""
    d = data.dataset(DA).d
    rs = np.random.RandomState(3)
    if name in ('LMNN', 'NCA', 'MLKR'):
        return {'P1': {'init': 'pca', 'n_components': 2}, 'PA': {'init': np.round(rs.randn(2, d) * 4) / 4 + np.eye(2, d), 'n_components': 2}}
    if name in ('ITML', 'ITML_Supervised', 'LSML', 'LSML_Supervised', 'SDML', 'SDML_Supervised'):
        return {'P1': {'prior': 'covariance'}, 'PA': {'prior': data.spd(d)}}
    if name in ('MMC', 'MMC_Supervised'):
        return {'P1': {'init': 'covariance'}, 'PA': {'init': data.spd(d)}}
    if name == 'LFDA':
        return {'P1': {'embedding_type': 'plain', 'k': 1}, 'PA': {'embedding_type': 'orthonormalized'}}
    if name in ('RCA', 'RCA_Supervised'):
        return {'P1': {'n_components': 2}, 'PA': {'n_components': 1}}
    if name in ('SCML', 'SCML_Supervised'):
        B = np.vstack([np.eye(d), np.round(rs.randn(2 * d, d) * 4) / 4])
        return {'P1': {'beta': 1e-4, 'batch_size': 3}, 'PA': {'basis': B, 'n_basis': None}}
    if name == 'Covariance':
        return {}
    raise KeyError(name)


_CONST = {}


def consts(name):
    """Process-wide constant argument objects with their pristine digests (checked after every transition)."""
    if name not in _CONST:
        da = data.dataset(DA)
        c = {'params': param_sets(name), 'preA': da.X.copy(), 'preB': (da.X * np.array([1.0, 2.0, 0.5]) + 0.25).copy(),
             'bounds': np.array([0.0, 4.0]), 'weights': np.arange(1.0, len(da.quads_idx) + 1),
             'calib': {'strategy': 'f_beta', 'beta': 2.0}}
        c['pristine'] = copy.deepcopy({k: c[k] for k in ('params', 'preA', 'preB', 'bounds', 'weights', 'calib')})
        c['dig'] = digest(c['pristine'])
        _CONST[name] = c
    return _CONST[name]


def fit_call(name, est, ds, form, c):
    """(positional args (fresh writable copies), kwargs) for a fit event."""
    args = [np.array(a, copy=True) for a in zoo.train_args(name, ds, form)]
    kw = {}
    if name in ('ITML', 'ITML_Supervised') and ds.name.split('~')[0] == DA:
        kw['bounds'] = c['bounds']
    if name in zoo.PAIRS:
        kw['calibration_params'] = c['calib']
    if name == 'LSML' and ds.name.split('~')[0] == DA:
        kw['weights'] = c['weights']
    return args, kw


def get_data(key):
    if key.endswith('~relabelled'):
        return data.relabelled(data.dataset(key.split('~')[0]))
    return data.dataset(key)


class World(object):
    def __init__(self, name):
        self.name = name
        # the search starts from an object that already carries array preprocessor A (a non-initial state:
        # the interesting histories fit -> replace the preprocessor -> refit then fit inside depth 3)
        self.est = zoo.make(name, data.dataset(DA), preprocessor=consts(name)['preA'])
        self.pkey = 'P0'          # which parameter set is in force
        self.prekey = 'preA'
        self.fit = None           # (data key, form, pkey, prekey) of the last successful fit
        self.dirty = False        # a fit raised: fitted state is unspecified until the next successful fit
        self.thr = None           # ('fit',) | ('set', v) | ('cal', fitkey)
        self.metric = None        # (handle, expected values)
        self.mat = None           # (returned matrix object, pristine copy)


def probes(ds):
    Q = data.query_points(ds)[[0, 1, 2, 7, 9, 11]]
    P = np.array([[Q[i], Q[j]] for i in range(len(Q)) for j in range(len(Q))])
    return Q, P


_ORACLE = {}


def oracle(name, fitkey):
    """Fitted state of a FRESH instance for (data, form, params, preprocessor) - the reference of invariant (i)."""
    fitkey = (name,) + tuple(fitkey)
    if fitkey not in _ORACLE:
        _, dkey, form, pkey, prekey = fitkey
        c = consts(name)
        ds = get_data(dkey)
        p = zoo.base_params(name, data.dataset(DA))
        if pkey != 'P0':
            p.update(copy.deepcopy(c['pristine']['params'][pkey]))
        if prekey:
            p['preprocessor'] = c['pristine'][prekey].copy()
        with warnings.catch_warnings():
            warnings.simplefilter('ignore')
            est = zoo.cls(name)(**p)
            args, kw = fit_call(name, est, ds, form, copy.deepcopy(c['pristine']))
            try:
                est.fit(*args, **kw)
            except Exception as e:
                _ORACLE[fitkey] = ('error', type(e).__name__)
                return _ORACLE[fitkey]
            Q, P = probes(ds)
            o = {'components_': est.components_.copy(), 'n_features_in_': est.n_features_in_,
                 'threshold_': getattr(est, 'threshold_', None), 'dist': est.pair_distance(P), 'est': est}
        _ORACLE[fitkey] = ('ok', o)
    return _ORACLE[fitkey]


def events(w):
    name = w.name
    ev = ['fit_a', 'fit_b', 'fit_idx']
    if zoo.KIND[name] in ('class', 'reg', 'pairs', 'chunks'):
        ev.append('fit_relabel')          # same points, other labels
    if consts(name)['params']:
        ev += ['set_P1', 'set_PA']
    ev += [e for e in ('set_preA', 'set_preB') if e[4:] != w.prekey]
    fitted = w.fit is not None and not w.dirty and hasattr(w.est, 'components_')
    if fitted:
        ev += ['query_all', 'get_handles']
        if name in zoo.PAIRS:
            ev += ['set_threshold', 'calibrate']
    if w.mat is not None:
        ev.append('mutate_M')
    ev += ['clone', 'pickle']
    return ev


def apply(w, ev):
    """Execute the real API call; returns a dict describing what happened (consumed by the invariants)."""
    name, est, c = w.name, w.est, consts(w.name)
    out = {'ev': ev, 'exc': None, 'snap': None}
    warnings.simplefilter('ignore')
    try:
        if ev in ('fit_a', 'fit_b', 'fit_idx', 'fit_relabel'):
            ds = get_data(DB if ev == 'fit_b' else (DA + '~relabelled' if ev == 'fit_relabel' else DA))
            form = 'index' if ev == 'fit_idx' else 'formed'
            args, kw = fit_call(name, est, ds, form, c)
            before = digest(args, kw)
            pbefore = digest(est.get_params())
            try:
                r = est.fit(*args, **kw)
                out['ret_self'] = r is est
                w.fit = (ds.name, form, w.pkey, w.prekey)
                w.dirty = False
                w.thr = ('fit',)
            except Exception as e:
                out['exc'] = e
                w.dirty = True
            out['args_changed'] = digest(args, kw) != before
            out['params_changed'] = digest(est.get_params()) != pbefore
        elif ev in ('set_P1', 'set_PA'):
            key = ev[4:]
            base = zoo.base_params(name, data.dataset(DA))
            p = dict(base)
            p.update(c['params'][key])
            # parameters of the other sets go back to their construction value
            allp = est.get_params()
            p = {k: v for k, v in p.items() if k in allp}
            for k in set().union(*[set(x) for x in c['params'].values()]):
                if k not in p and k in allp:
                    p[k] = zoo.cls(name)().get_params()[k] if k not in base else base[k]
            est.set_params(**p)
            w.pkey = key
        elif ev in ('set_preA', 'set_preB'):
            est.set_params(preprocessor=c[ev[4:]])
            w.prekey = ev[4:]
        elif ev == 'query_all':
            out['public_before'] = public_digest(w)
            ds = get_data(w.fit[0])
            Q, P = probes(ds)
            Q2, P2 = Q.copy(), P.copy()
            res = {'transform': est.transform(Q2), 'pair_distance': est.pair_distance(P2),
                   'pair_score': est.pair_score(P2), 'M': est.get_mahalanobis_matrix()}
            kind = zoo.KIND[name]
            if name in zoo.PAIRS:
                yv = np.where(np.arange(len(P2)) % 2 == 0, 1, -1)
                res['predict'] = est.predict(P2)
                res['decision_function'] = est.decision_function(P2)
                res['score'] = est.score(P2, yv)
            elif kind == 'triplets':
                T = np.array([[Q[i], Q[(i + 1) % len(Q)], Q[(i + 2) % len(Q)]] for i in range(len(Q))])
                res['predict'] = est.predict(T)
                res['score'] = est.score(T)
            elif kind == 'quads':
                T = np.array([[Q[i], Q[(i + 1) % len(Q)], Q[(i + 2) % len(Q)], Q[(i + 3) % len(Q)]] for i in range(len(Q))])
                res['predict'] = est.predict(T)
                res['score'] = est.score(T)
            out['res'] = res
            out['args_changed'] = not (np.array_equal(Q, Q2) and np.array_equal(P, P2))
        elif ev == 'get_handles':
            ds = get_data(w.fit[0])
            Q, P = probes(ds)
            f = est.get_metric()
            w.metric = (f, Q, np.array([f(p[0], p[1]) for p in P]))
            M = est.get_mahalanobis_matrix()
            w.mat = (M, M.copy())
        elif ev == 'mutate_M':
            w.mat[0][...] = 0.0
            w.mat = (w.mat[0], w.mat[0].copy())
        elif ev == 'set_threshold':
            est.set_threshold(0.75)
            w.thr = ('set', 0.75)
        elif ev == 'calibrate':
            ds = get_data(w.fit[0])
            Pv = np.array(ds.pairs[::2], copy=True)
            yv = np.array(ds.ypairs[::2], copy=True)
            b = digest(Pv, yv)
            est.calibrate_threshold(Pv, yv, strategy='f_beta', beta=0.5)
            out['args_changed'] = digest(Pv, yv) != b
            w.thr = ('cal',)
        elif ev == 'clone':
            w.est = clone(est)
            w.fit, w.dirty, w.thr = None, False, None
        elif ev == 'pickle':
            w.est = pickle.loads(pickle.dumps(est))
    except Exception as e:
        out['exc'] = e
    return out


def world_digest(w):
    met = None if w.metric is None else digest(w.metric[0], w.metric[2])
    mat = None if w.mat is None else digest(w.mat[0], w.mat[1])
    return digest(vars(w.est), type(w.est).__name__, w.pkey, w.prekey, w.fit, w.dirty, w.thr, met, mat)


def public_digest(w):
    """Digest of the OBSERVABLE state only (parameters and public attributes): a hidden cache created by a query is not
    a change of the fitted state as long as every observable (checked separately against the fresh-instance oracle) is unchanged."""
    pub = {k: v for k, v in vars(w.est).items() if not k.startswith('_')}
    return digest(pub, type(w.est).__name__, w.fit, w.dirty, w.thr)


def invariant_factory(name):
    c = consts(name)

    def invariant(w, ev, out, hist, dig_before):
        v = []
        est = w.est
        tr = [ev]
        e = out.get('exc')
        site = name + '.' + ev
        # --- (ii) arguments / hyper-parameter objects unmodified
        if digest({k: c[k] for k in ('params', 'preA', 'preB', 'bounds', 'weights', 'calib')}) != c['dig']:
            changed = [k for k in ('params', 'preA', 'preB', 'bounds', 'weights', 'calib') if digest(c[k]) != digest(c['pristine'][k])]
            v.append(V(site, 'mutates_hyperparameter', 'array passed as %s was modified in place' % changed, tr + changed))
            for k in changed:                      # restore so that later transitions are judged on their own
                c[k] = copy.deepcopy(c['pristine'][k])
        if out.get('args_changed'):
            v.append(V(site, 'mutates_argument', 'a data argument of the call was modified', tr))
        if out.get('params_changed'):
            v.append(V(site, 'mutates_params', 'get_params() changed during fit', tr))
        if ev.startswith('fit') and e is None and out.get('ret_self') is False:
            v.append(V(site, 'returns_self', 'fit did not return the estimator', tr))
        # --- legit failures: index fit without preprocessor, array option of the wrong dimensionality, ...
        if e is not None:
            if ev.startswith('fit'):
                ok, o = oracle(name, (DB if ev == 'fit_b' else (DA + '~relabelled' if ev == 'fit_relabel' else DA), 'index' if ev == 'fit_idx' else 'formed', w.pkey, w.prekey))
                if ok == 'ok':
                    v.append(V(site, 'fit_raises', 'fit raised %s (%s) although a fresh instance with the same parameters and '
                               'data fits' % (type(e).__name__, str(e)[:120]), tr))
            else:
                v.append(V(site, 'raises', '%s raised %s: %s' % (ev, type(e).__name__, str(e)[:160]), tr))
            return v
        # --- (iii) queries leave the state unchanged
        if ev == 'query_all' and public_digest(w) != out.get('public_before'):
            v.append(V(site, 'query_changes_state', 'query methods changed the (public) estimator state', tr))
        # --- (i) fitted state equals the fresh-instance oracle
        if w.fit is not None and not w.dirty and ev != 'clone':
            ok, o = oracle(name, w.fit)
            if ok != 'ok':
                v.append(V(site, 'fit_succeeds_unexpectedly', 'fit succeeded where a fresh instance raises %s' % o, tr))
            else:
                first = len([h for h in hist if h.startswith('fit')]) == 0
                trg = tr + ([] if first else ['after_other_fit']) + [w.fit[1]]
                if not np.array_equal(est.components_, o['components_']):
                    v.append(V(site, 'history_dependent_model',
                               'components_ differs from a fresh instance fitted with the same parameters on the same data '
                               '(max abs diff %.3g)' % (np.abs(est.components_ - o['components_']).max()
                                                        if est.components_.shape == o['components_'].shape else np.nan), trg))
                # the matrix view of the current model (asked of a deep copy, so that the question does not disturb the state)
                if 'M' not in o:
                    o['M'] = o['est'].get_mahalanobis_matrix()
                try:
                    Mnow = copy.deepcopy(est).get_mahalanobis_matrix()
                    if Mnow.shape != o['M'].shape or not np.array_equal(Mnow, o['M']):
                        v.append(V(site, 'history_dependent_matrix', 'get_mahalanobis_matrix() differs from that of a fresh instance fitted with the '
                                   'same parameters on the same data (shape %s vs %s)' % (Mnow.shape, o['M'].shape), trg))
                except Exception as e_:
                    v.append(V(site, 'raises', 'get_mahalanobis_matrix raised %s' % type(e_).__name__, trg))
                if getattr(est, 'n_features_in_', None) != o['n_features_in_']:
                    v.append(V(site, 'n_features_in_', 'n_features_in_=%r, fresh instance has %r'
                               % (getattr(est, 'n_features_in_', None), o['n_features_in_']), trg))
                if name in zoo.PAIRS:
                    if w.thr == ('fit',) and getattr(est, 'threshold_', None) != o['threshold_']:
                        v.append(V(site, 'history_dependent_threshold', 'threshold_=%r, fresh instance has %r'
                                   % (getattr(est, 'threshold_', None), o['threshold_']), trg))
                    if w.thr and w.thr[0] == 'set' and est.threshold_ != w.thr[1]:
                        v.append(V(site, 'set_threshold', 'threshold_ is %r after set_threshold(%r)' % (est.threshold_, w.thr[1]), trg))
                    if ev == 'calibrate':
                        ref = copy.deepcopy(o['est'])
                        ds = get_data(w.fit[0])
                        ref.calibrate_threshold(ds.pairs[::2], ds.ypairs[::2], strategy='f_beta', beta=0.5)
                        if ref.threshold_ != est.threshold_:
                            v.append(V(site, 'history_dependent_threshold', 'calibrated threshold_=%r, fresh instance gives %r'
                                       % (est.threshold_, ref.threshold_), trg))
                if ev == 'query_all':
                    if not np.array_equal(out['res']['pair_distance'], o['dist']):
                        v.append(V(site, 'history_dependent_distance', 'pair_distance differs from a fresh instance', trg))
        # --- (iv) handles issued earlier still return their original values
        if w.metric is not None:
            f, Q, exp = w.metric
            P = np.array([[Q[i], Q[j]] for i in range(len(Q)) for j in range(len(Q))])
            now = np.array([f(p[0], p[1]) for p in P])
            if not np.array_equal(now, exp):
                v.append(V(site, 'metric_handle_changed', 'a function returned earlier by get_metric() now returns other values', tr))
        if w.mat is not None and not np.array_equal(w.mat[0], w.mat[1]):
            v.append(V(site, 'matrix_handle_changed', 'a matrix returned earlier by get_mahalanobis_matrix() was modified', tr))
            w.mat = (w.mat[0], w.mat[0].copy())
        if ev == 'mutate_M' and w.fit is not None and not w.dirty:
            ok, o = oracle(name, w.fit)
            if ok == 'ok':
                Q, P = probes(get_data(w.fit[0]))
                if not np.array_equal(est.pair_distance(P), o['dist']):
                    v.append(V(site, 'matrix_aliases_state', 'overwriting the returned matrix changed the learned distance', tr))
                if not np.array_equal(est.get_mahalanobis_matrix(), o['est'].get_mahalanobis_matrix()):
                    v.append(V(site, 'matrix_aliases_state', 'after the caller overwrote a matrix returned earlier, get_mahalanobis_matrix() no '
                               'longer returns L^T L', tr))
        return v
    return invariant


def cases(tier, seed):
    out = [(n, ('bfs', n, BOUNDS[tier].get('depth_light', BOUNDS[tier]['depth']) if n in LIGHT else BOUNDS[tier]['depth'])) for n in zoo.ALL]
    out.append(('LFDA/arpack', ('lfda_arpack', seed)))
    for name in LARGE:
        out.append(('large/' + name, ('large', name, seed)))
    return out


# learners whose fit hands the integer random_state to helpers that may switch to randomised algorithms on large inputs
# (PCA picks a randomised SVD beyond 500 samples with fewer than 10 samples per feature; KMeans; make_spd_matrix)
LARGE = {'NCA': dict(init='pca', n_components=5, max_iter=3), 'MLKR': dict(init='pca', n_components=5, max_iter=3),
         'LMNN': dict(init='pca', n_components=5, max_iter=4, n_neighbors=2),
         'NCA/auto': dict(init='auto', n_components=8, max_iter=3),
         'SCML_Supervised': dict(k_genuine=2, k_impostor=2, n_basis=40, max_iter=100, output_iter=50, batch_size=5),
         'RCA_Supervised': dict(n_chunks=200, chunk_size=2), 'ITML_Supervised': dict(max_iter=2, n_constraints=60, prior='random'),
         'LSML_Supervised': dict(max_iter=2, n_constraints=60, prior='random')}


def large_data(seed):
    rs = np.random.RandomState(5200 + seed)
    n, d = 520, 60
    y = np.arange(n) % 4
    X = np.round((rs.randn(n, d) + 1.5 * rs.randn(4, d)[y]) * 64) / 64
    return X, y, np.round((X[:, :3].sum(1) + 0.25 * rs.randn(n)) * 64) / 64


def cost(spec):
    return {'MMC': 9, 'MMC_Supervised': 8, 'ITML': 6, 'ITML_Supervised': 6, 'LSML': 7, 'SCML_Supervised': 5}.get(spec[1], 1) if spec[0] == 'bfs' else (4 if spec[0] == 'large' else 0)


def run_case(spec):
    if spec[0] == 'lfda_arpack':
        viol = []
        sigs = set()
        n = 0
        for dsn in (DA, 'S5'):
            ds = data.dataset(dsn)
            for nc in range(1, ds.d):
                Ms = []
                for rep in range(3):
                    est = zoo.make('LFDA', ds, n_components=nc)
                    if rep == 2:
                        est.set_params(n_components=1)
                        est.fit(*zoo.train_args('LFDA', data.dataset(DB)))
                        est.set_params(n_components=nc)
                    est.fit(*zoo.train_args('LFDA', ds))
                    Ms.append(est.get_mahalanobis_matrix())
                    n += 1
                for M in Ms[1:]:
                    if not np.allclose(M, Ms[0], rtol=1e-8, atol=1e-8 * np.abs(Ms[0]).max()):
                        viol.append(V('LFDA.fit', 'history_dependent_model', 'LFDA(n_components=%d) on %s: M differs between '
                                      'repeated / refitted runs beyond 1e-8' % (nc, dsn), ['arpack']))
                sigs.add(('lfda_arpack', dsn, nc))
        return dict(evals=n, sigs=sigs, viol=viol, states=len(sigs), transitions=n,
                    sample={'case': 'LFDA reduced-dimension (ARPACK) repeated fits compared through M'})
    if spec[0] == 'large':
        _, key, seed = spec
        name = key.split('/')[0]
        X, y, yr = large_data(seed)
        target = yr if name == 'MLKR' else y
        viol = []
        n = 0
        for rs_ in (0, 1):
            p = dict(LARGE[key], random_state=rs_)
            first = zoo.cls(name)(**p).fit(X.copy(), target.copy())
            again = zoo.cls(name)(**p).fit(X.copy(), target.copy())      # a fresh clone on the same arguments
            first.fit(X.copy(), target.copy())                            # and a repeated fit of the same object
            n += 3
            M0 = again.get_mahalanobis_matrix()
            for lab, e in (('a repeated fit', first),):
                if not np.array_equal(e.get_mahalanobis_matrix(), M0):
                    dev = np.abs(e.get_mahalanobis_matrix() - M0).max() / max(np.abs(M0).max(), 1e-300)
                    viol.append(V(name + '.fit', 'nondeterministic_with_integer_seed', 'with random_state=%d, %s and a fresh instance give different '
                                  'metrics on a 520 x 60 dataset (relative difference %.3g) [%s]' % (rs_, lab, dev, LARGE[key]), ['large', key]))
        return dict(evals=n, sigs={('large', key, 0), ('large', key, 1)}, viol=viol, states=2, transitions=n,
                    sample={'case': 'repeat-fit determinism on a 520 x 60 dataset', 'learner': key, 'options': {k: v for k, v in LARGE[key].items()}})
    _, name, depth = spec
    s = Search(build=lambda: World(name), events=events, apply=apply, digest=world_digest,
               invariant=invariant_factory(name), depth=depth)
    s.run()
    viol = []
    for x in s.violations:
        if 'site' not in x:
            x = V(name, x['clause'], x['msg'], ['replay'], hist=x['hist'])
        else:
            x['detail']['history'] = x.pop('hist')
            x['msg'] = x['msg'] + '  [history: %s]' % ' -> '.join(x['detail']['history'])
        viol.append(x)
    return dict(evals=s.transitions, sigs=s.outcomes, viol=viol, states=s.states, transitions=s.transitions,
                stats={'max_depth': 0, 'frontier_exhausted_below_depth': int(s.exhausted)},
                sample={'estimator': name, 'depth': depth, 'states': s.states, 'transitions': s.transitions,
                        'a_longest_new-state_trace': s.sample_trace})


def replay_violation(rep):
    """Rebuild the state by applying exactly the recorded call history (no search) and evaluate the invariants of its last step."""
    name = rep['spec'][1]
    hist = rep['violation']['detail']['history']
    w = World(name)
    for ev in hist[:-1]:
        apply(w, ev)
    before = world_digest(w)
    out = apply(w, hist[-1])
    return invariant_factory(name)(w, hist[-1], out, hist[:-1], before)
