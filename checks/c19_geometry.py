"""C19 - the learned distance depends on the data only through its geometry (DESIGN.md section 5, C19).

E1: metamorphic relations, each over an enumerated transformation alphabet:
  translation (17 estimators x 12 grid vectors), within-tuple swaps (all 2^6 patterns + all-swapped; ITML, MMC, SDML,
  LSML), sample permutations (Covariance, RCA), orthogonal maps (the whole hyperoctahedral group for d = 2, 3 plus
  Pythagorean rotations; rotation-invariant learners), scaling by powers of two incl. 2^+-30 (Covariance, RCA).
"""
import itertools
import warnings

import numpy as np

from mc import env  # noqa: F401
from mc import data, zoo

PID = 'C19'
LEVEL = 'exploration'
RULE = ('relation x estimator x transformation x dataset; translations: 12 vectors of {-2..2}^d / 2; swaps: all 64 patterns on '
        'the first 6 tuples + all tuples swapped; permutations: reversal, rotation by one, 10 fixed; orthogonal: all signed '
        'permutation matrices (8 for d=2, 48 for d=3) + rotations by (3,4,5) and (5,12,13) angles; scaling: c in '
        '{2^-30, 1/4, 1/2, 2, 4, 2^30}; signature = (relation, estimator, options, transformation, dataset)')
ASSUMPTIONS = ['Data lie on the dyadic grid 2^-6, so translations, signed permutations and power-of-two scalings are exact in '
               'floating point; distances of corresponding query pairs are compared with tolerance 1e-8 (direct / convex '
               'learners), 1e-4 (gradient learners run with a small iteration budget); swaps are required to be bit-identical.',
               'Rotation clause is checked in the distance formulation d_M\'(Qx, Qy) = d_M(x, y).']
TOL_TIGHT, TOL_LOOSE = 1e-8, 1e-4
# ITML's Bregman projections cancel to a matrix of norm ~1e-9 on these pair sets, amplifying input rounding to ~3e-7 relative
# (measured on the unchanged tree); its tolerance keeps the 100x margin of ground rule G1a
TOL_ITML = 1e-4
LOOSE = {'LMNN', 'NCA', 'MLKR', 'SCML', 'SCML_Supervised'}
# every iterative learner runs a small fixed number of iterations: the relations hold step by step (up to rounding), whereas
# runs stopped by a convergence tolerance (ITML / LSML tol = 1e-3) agree only to that tolerance
SMALL_BUDGET = {'NCA': {'max_iter': 5}, 'MLKR': {'max_iter': 5}, 'LMNN': {'max_iter': 12}, 'ITML': {'max_iter': 5},
                'ITML_Supervised': {'max_iter': 5}, 'LSML': {'max_iter': 5}, 'LSML_Supervised': {'max_iter': 5},
                'MMC': {'max_iter': 6}, 'MMC_Supervised': {'max_iter': 6}}


def V(site, clause, msg, triggers=(), **detail):
    return dict(site=site, clause=clause, msg=msg, triggers=list(triggers), detail=detail)


def transformed(ds, f):
    """Dataset whose points are f(X) (tuples re-formed from the same indices)."""
    s = data.scaled(ds, 1.0)
    s.X = f(ds.X)
    s.pairs, s.quads, s.quads_sat, s.trip = s.X[ds.pairs_idx], s.X[ds.quads_idx], s.X[ds.quads_sat_idx], s.X[ds.trip_idx]
    return s


def translations(d):
    rs = np.random.RandomState(19)
    vs = [np.zeros(d)]
    while len(vs) < 12:
        v = rs.randint(-2, 3, size=d) / 2.0
        if any(v) and not any(np.array_equal(v, w) for w in vs):
            vs.append(v)
    vs[1] = np.full(d, 2.0)
    vs[2] = -np.full(d, 1.5)
    return vs


def signed_perms(d):
    out = []
    for p in itertools.permutations(range(d)):
        for s in itertools.product((1.0, -1.0), repeat=d):
            Q = np.zeros((d, d))
            for i in range(d):
                Q[i, p[i]] = s[i]
            out.append(Q)
    return out


def pyth(d, a, b, c, i=0, j=1):
    Q = np.eye(d)
    Q[i, i], Q[i, j], Q[j, i], Q[j, j] = a / c, -b / c, b / c, a / c
    return Q


def probe_idx(ds):
    n = len(ds.X)
    return np.array([(i, j) for i in range(0, n, max(1, n // 6)) for j in range(1, n, max(1, n // 5)) if i != j])


def rel_dev(d1, d2):
    sc = max(np.abs(d1).max(), 1e-300)
    return float(np.abs(d1 - d2).max() / sc)


ROT_LEARNERS = [('Covariance', {}), ('RCA', {}), ('RCA', {'n_components': 1}), ('LFDA', {}), ('LFDA', {'embedding_type': 'plain', 'n_components': 2}),
                ('LMNN', {'init': 'identity'}), ('ITML', {}), ('ITML', {'prior': 'covariance'}), ('LSML', {}),
                ('LSML', {'prior': 'covariance'}), ('MMC', {}), ('MMC', {'init': 'covariance'})]


def cases(tier, seed):
    out = []
    dss = ['S3u', 'S5'] if tier == 'quick' else ['S2', 'S3', 'S3u', 'S5', 'R']
    for dsn in dss:
        for name in zoo.ALL:
            out.append(('translation/%s/%s' % (name, dsn), ('trans', name, dsn, seed)))
        for name in ('ITML', 'MMC', 'SDML', 'LSML'):
            out.append(('swap/%s/%s' % (name, dsn), ('swap', name, dsn, seed)))
        for name in ('Covariance', 'RCA'):
            out.append(('permutation/%s/%s' % (name, dsn), ('perm', name, dsn, seed)))
            out.append(('scaling/%s/%s' % (name, dsn), ('scale', name, dsn, seed)))
    for dsn in (['S2', 'S3u'] if tier == 'quick' else ['S2', 'S3', 'S3u', 'R']):
        for i, (name, o) in enumerate(ROT_LEARNERS):
            if o.get('n_components', 0) == 2 and data.SPECS.get(dsn, (3,))[0] < 3:
                continue
            out.append(('orthogonal/%s/%d/%s' % (name, i, dsn), ('orth', name, i, dsn, seed)))
    # MMC run to its own convergence (default max_iter / tol) on a fixed family of further datasets under genuine rotations:
    # a frame-dependent stopping rule only shows on the few training sets where the stop falls between accepted steps
    nfam = 48 if tier == 'quick' else 240
    for k in range(0, nfam, 4):
        out.append(('orthogonal_converged/MMC/%d-%d' % (k, k + 3), ('orthconv', 'MMC', list(range(k, k + 4)), 'fam', seed)))
    # a training set with more than a thousand distinct points (anything estimated from "the first N points" after an
    # internal sort depends on the frame)
    out.append(('orthogonal_large/ITML/1300_points', ('orthlarge', 'ITML', 0, 'large', seed)))
    if tier == 'thorough':
        for i, (name, o) in enumerate(ROT_LEARNERS):
            out.append(('orthogonal/%s/%d/S5' % (name, i), ('orth', name, i, 'S5', seed)))
    return out


def cost(spec):
    return {'orth': 6, 'swap': 4, 'orthconv': 8}.get(spec[0], 1) * {'MMC': 5, 'LSML': 4, 'ITML': 3}.get(spec[1], 1)


def run_orthconv(spec):
    _, name, ks, _, seed = spec
    viol, sigs = [], set()
    evals = 0
    worst = 0.0
    for k in ks:
        d = 3 + (k % 3)
        X, y = data._points(d, (6, 7, 5), 19000 + k)
        pairs_idx, ypairs, _, _, _ = data._tuples(X, y)
        Qs = [pyth(d, 3, 4, 5), pyth(d, 5, 12, 13, 0, d - 1), pyth(d, 3, 4, 5, 1, 2).dot(pyth(d, 5, 12, 13))]
        for init in ('identity', 'covariance'):
            ref = ml_MMC(init=init).fit(X[pairs_idx], ypairs)
            M0 = ref.get_mahalanobis_matrix()
            for qi, Q in enumerate(Qs):
                X2 = X.dot(Q.T)
                e2 = ml_MMC(init=init).fit(X2[pairs_idx], ypairs)
                evals += 1
                M2 = e2.get_mahalanobis_matrix()
                devM = float(np.abs(M2 - Q.dot(M0).dot(Q.T)).max() / max(np.abs(M0).max(), 1e-300))
                worst = max(worst, devM / 1e-6)
                sigs.add(('orthconv', k, init, qi, ref.n_iter_))
                if not devM <= 1e-6:
                    viol.append(V('MMC.fit', 'orthogonal', 'MMC(init=%r) run to convergence on family member %d: rotating the points changes the learned '
                                  'matrix by %.3g relative (n_iter_ %d vs %d)' % (init, k, devM, ref.n_iter_, e2.n_iter_), ['orthogonal', 'converged']))
    return dict(evals=evals, sigs=sigs, viol=viol, headroom={'orthogonal_converged_mmc': worst},
                sample={'relation': 'orthogonal map, MMC with default budget', 'family members': ks})


def run_orthlarge(spec):
    import metric_learn
    rs = np.random.RandomState(1913)
    d = 3
    X = np.unique(np.round(rs.randn(1400, d) * np.array([3.0, 1.0, 2.0]) * 64) / 64, axis=0)
    rs.shuffle(X)
    X = X[:1300]
    # every point belongs to the training pairs' point set: pairs over all 1300 points
    allidx = np.array([(i, (i * 7 + 3) % 1300) for i in range(1300)])
    alld = np.sqrt(((X[allidx[:, 0]] - X[allidx[:, 1]]) ** 2).sum(1))
    ally = np.where(alld < np.median(alld), 1, -1)
    viol, sigs = [], set()
    worst = 0.0
    evals = 0
    ref = metric_learn.ITML(max_iter=3).fit(X[allidx], ally)
    M0 = ref.get_mahalanobis_matrix()
    for qi, Q in enumerate([pyth(d, 3, 4, 5), pyth(d, 5, 12, 13, 0, 2), pyth(d, 3, 4, 5, 1, 2).dot(pyth(d, 5, 12, 13))]):
        X2 = X.dot(Q.T)
        e2 = metric_learn.ITML(max_iter=3).fit(X2[allidx], ally)
        evals += 1
        M2 = e2.get_mahalanobis_matrix()
        devM = float(np.abs(M2 - Q.dot(M0).dot(Q.T)).max() / np.abs(M0).max())
        devb = float(np.abs(e2.bounds_ - ref.bounds_).max() / np.abs(ref.bounds_).max())
        worst = max(worst, max(devM, devb) / TOL_ITML)
        sigs.add(('orthlarge', qi))
        if not (devM <= TOL_ITML and devb <= TOL_ITML):
            viol.append(V('ITML.fit', 'orthogonal', 'ITML on 1300 distinct points: a rotation changes the learned matrix by %.3g relative and the '
                          'default bounds_ by %.3g relative [map %d]' % (devM, devb, qi), ['orthogonal', 'more_than_1000_points']))
    return dict(evals=evals, sigs=sigs, viol=viol, headroom={'orthogonal_large:itml': worst},
                sample={'relation': 'orthogonal map', 'estimator': 'ITML', 'training points': 1300, 'pairs': 1300, 'maps': 3})


def ml_MMC(**kw):
    import metric_learn
    return metric_learn.MMC(**kw)


def run_case(spec):
    warnings.simplefilter('ignore')
    if spec[0] == 'orthconv':
        return run_orthconv(spec)
    if spec[0] == 'orthlarge':
        return run_orthlarge(spec)
    kind, name = spec[0], spec[1]
    dsn, seed = spec[-2], spec[-1]
    ds = data.dataset('R', seed) if dsn == 'R' else data.dataset(dsn)
    d = ds.d
    viol, sigs = [], set()
    evals = 0
    tol = TOL_LOOSE if name in LOOSE else (TOL_ITML if name.startswith('ITML') else TOL_TIGHT)
    budget = SMALL_BUDGET.get(name, {})
    P = probe_idx(ds)
    worst = 0.0

    def dist_on(est, dsx):
        return est.pair_distance(dsx.X[P])

    if kind == 'trans':
        cfgs = [('base', {})]
        if name in ('ITML', 'LSML', 'SDML', 'ITML_Supervised', 'LSML_Supervised', 'SDML_Supervised'):
            cfgs.append(('prior=covariance', {'prior': 'covariance'}))
        if name in ('ITML', 'LSML', 'SDML'):
            cfgs.append(('prior=array', {'prior': data.spd(d)}))          # one array object handed to every fit of the family
        if name in ('MMC', 'MMC_Supervised'):
            cfgs.append(('init=covariance', {'init': 'covariance'}))
        if name == 'MMC':
            cfgs.append(('init=array', {'init': data.spd(d)}))
        if name in ('LMNN', 'NCA', 'MLKR'):
            cfgs += [('init=pca', {'init': 'pca', 'n_components': 2, 'random_state': 0}), ('init=identity', {'init': 'identity'})]
        if name == 'RCA':
            cfgs.append(('n_components=1', {'n_components': 1}))
            cfgs.append(('non-contiguous chunk ids', {}))
        ds_given = ds
        for clab, over in cfgs:
            o = dict(budget, **over)
            ds = ds_given
            if clab == 'non-contiguous chunk ids':
                ds = data.scaled(ds_given, 1.0)          # same points; chunklet names 3, 5, 7, ... instead of 0, 1, 2, ...
                ch = ds_given.chunks.copy()
                ch[ch >= 0] = 2 * ch[ch >= 0] + 3
                ds.chunks = ch
            ref = zoo.fit(name, ds, **o)
            d0 = dist_on(ref, ds)
            for t in translations(d)[1:]:
                ds2 = transformed(ds, lambda X: X + t)
                e2 = zoo.fit(name, ds2, **o)
                evals += 1
                dev = rel_dev(d0, dist_on(e2, ds2))
                worst = max(worst, dev / tol)
                sigs.add(('translation', name, clab, tuple(t), dsn))
                if not dev <= tol:
                    viol.append(V(name + '.fit', 'translation', 'translating all points by %s changes the learned distances by %.3g relative '
                                  '[%s, %s]' % (t.tolist(), dev, clab, dsn), ['translation', clab]))
        return dict(evals=evals, sigs=sigs, viol=viol, headroom={'translation:' + ('loose' if name in LOOSE else ('itml' if name.startswith('ITML') else 'tight')): worst},
                    sample={'relation': 'translation', 'estimator': name, 'dataset': dsn, 'vectors': [t.tolist() for t in translations(d)[1:4]] + ['...']})

    if kind == 'swap':
        key = 'init' if name == 'MMC' else 'prior'
        for clab, over in (('identity', {}), ('covariance', {key: 'covariance'})):
            args = zoo.train_args(name, ds)
            T = np.array(args[0])
            ref = zoo.make(name, ds, **over).fit(T.copy(), *args[1:])
            M0 = ref.get_mahalanobis_matrix()
            m = 6
            pats = list(itertools.product((0, 1), repeat=m))[1:] + [tuple([1] * len(T))]
            for pat in pats:
                T2 = T.copy()
                for i, s in enumerate(pat):
                    if s:
                        T2[i] = T2[i][[1, 0]] if T.shape[1] == 2 else T2[i][[1, 0, 3, 2]]
                e2 = zoo.make(name, ds, **over).fit(T2, *args[1:])
                evals += 1
                M2 = e2.get_mahalanobis_matrix()
                sigs.add(('swap', name, clab, pat[:m], len(pat) > m, dsn))
                if not np.array_equal(M0, M2) or getattr(ref, 'threshold_', None) != getattr(e2, 'threshold_', None):
                    dev = float(np.abs(M0 - M2).max() / np.abs(M0).max())
                    viol.append(V(name + '.fit', 'swap', 'swapping the points inside training tuples %s changes the learned metric (%.3g relative) '
                                  '[%s, %s]' % (('pattern %s' % (pat,)) if len(pat) == m else 'all', dev, clab, dsn), ['swap', clab], deviation=dev))
        return dict(evals=evals, sigs=sigs, viol=viol,
                    sample={'relation': 'within-tuple swap', 'estimator': name, 'dataset': dsn, 'patterns': '2^6 - 1 on the first tuples + all swapped'})

    if kind == 'perm':
        n = len(ds.X)
        rs = np.random.RandomState(77)
        perms = [np.arange(n)[::-1], np.roll(np.arange(n), 1)] + [rs.permutation(n) for _ in range(10)]
        cfgs = [{}] + ([{'n_components': 1}, {'n_components': 2}] if name == 'RCA' else [])
        for over in cfgs:
            ref = zoo.fit(name, ds, **over)
            d0 = dist_on(ref, ds)
            for pi, p in enumerate(perms):
                args = zoo.train_args(name, ds)
                a2 = tuple(np.asarray(a)[p] for a in args)
                e2 = zoo.make(name, ds, **over).fit(*a2)
                evals += 1
                dev = rel_dev(d0, dist_on(e2, ds))
                worst = max(worst, dev / TOL_TIGHT)
                sigs.add(('perm', name, tuple(over.items()), pi, dsn))
                if not dev <= TOL_TIGHT:
                    viol.append(V(name + '.fit', 'permutation', 'listing the samples in another order changes the distances by %.3g relative '
                                  '[%s, %s]' % (dev, over, dsn), ['permutation']))
        return dict(evals=evals, sigs=sigs, viol=viol, headroom={'permutation': worst},
                    sample={'relation': 'sample permutation', 'estimator': name, 'dataset': dsn, 'permutations': 12})

    if kind == 'scale':
        cfgs = [{}] + ([{'n_components': 1}] if name == 'RCA' else [])
        for over in cfgs:
            ref = zoo.fit(name, ds, **over)
            d0 = dist_on(ref, ds)
            for c in (2.0 ** -30, 0.25, 0.5, 2.0, 4.0, 2.0 ** 30):
                ds2 = transformed(ds, lambda X: X * c)
                e2 = zoo.fit(name, ds2, **over)
                evals += 1
                # distances of the SAME query points shrink by 1/c  <=>  d'(c x, c y) = d(x, y)
                dev = rel_dev(d0, dist_on(e2, ds2))
                dev2 = rel_dev(d0 / c, e2.pair_distance(ds.X[P]))
                worst = max(worst, max(dev, dev2) / 1e-10)
                sigs.add(('scale', name, tuple(over.items()), c, dsn))
                if not (dev <= 1e-10 and dev2 <= 1e-10):
                    viol.append(V(name + '.fit', 'scaling', 'scaling all features by %g does not scale the distances by 1/c (relative deviation '
                                  '%.3g) [%s, %s]' % (c, max(dev, dev2), over, dsn), ['scaling', 'c=%g' % c]))
        return dict(evals=evals, sigs=sigs, viol=viol, headroom={'scaling': worst},
                    sample={'relation': 'scaling', 'estimator': name, 'dataset': dsn, 'factors': ['2^-30', 0.25, 0.5, 2, 4, '2^30']})

    if kind == 'orth':
        over = dict(ROT_LEARNERS[spec[2]][1])
        o = dict(budget, **over)
        Qs = signed_perms(d) if d <= 3 else signed_perms(d)[::97][:40]
        Qs = Qs[1:] + [pyth(d, 3, 4, 5), pyth(d, 5, 12, 13, 0, d - 1)] + ([pyth(d, 3, 4, 5, 1, 2).dot(pyth(d, 5, 12, 13))] if d >= 3 else [])
        ref = zoo.fit(name, ds, **o)
        d0 = dist_on(ref, ds)
        M0 = ref.get_mahalanobis_matrix()
        tl = 1e-6 if name == 'LMNN' else tol
        for qi, Q in enumerate(Qs):
            ds2 = transformed(ds, lambda X: X.dot(Q.T))
            e2 = zoo.fit(name, ds2, **o)
            evals += 1
            dev = rel_dev(d0, dist_on(e2, ds2))
            M2 = e2.get_mahalanobis_matrix()
            devM = float(np.abs(M2 - Q.dot(M0).dot(Q.T)).max() / np.abs(M0).max())
            worst = max(worst, max(dev, devM) / tl)
            sigs.add(('orth', name, tuple(over.items()), qi, dsn))
            if not (dev <= tl and devM <= tl):
                viol.append(V(name + '.fit', 'orthogonal', 'mapping the points through an orthogonal matrix changes the learned distances '
                              '(%.3g relative; |M\' - Q M Q^T| %.3g) [%s, %s, map %d]' % (dev, devM, over, dsn, qi), ['orthogonal']))
        return dict(evals=evals, sigs=sigs, viol=viol, headroom={'orthogonal' + (':itml' if name.startswith('ITML') else ''): worst},
                    sample={'relation': 'orthogonal map', 'estimator': name, 'options': over, 'dataset': dsn, 'maps': len(Qs)})
