"""C09 - closed-form learners compute their documented formula (DESIGN.md section 5, C09).

E1: Covariance, RCA, LFDA x datasets x class / chunk layouts x n_components x (k, embedding_type), each compared with
an independent O(n^2) evaluation of the documented definition.
"""
import warnings

import numpy as np
import scipy.linalg

from mc import env  # noqa: F401
from mc import data, zoo
import metric_learn as ml

PID = 'C09'
LEVEL = 'exploration'
RULE = ('Covariance: datasets incl. a singular one (duplicated feature); RCA: chunk layouts {alphabet chunks with -1, the same with non-contiguous chunk ids, every '
        'point chunked, large unbalanced chunks} x n_components in None,1..d; LFDA: layouts {as given, a class smaller than '
        'k+1 listed first / last, renamed classes, a singleton class, identical rows inside a class} x k in 1..d-1 and None x embedding_type x n_components in None,1..d; '
        'signature = (learner, dataset, layout, options); non-trivial = every case (distinct data / options)')
ASSUMPTIONS = ['References: explicit outer-product covariance and Moore-Penrose conditions; within-chunk covariance from '
               'explicit chunk means; LFDA scatter matrices from the PAIRWISE definition (Sugiyama 2007) with sigma_i = distance '
               'to the min(k, n_c - 1)-th nearest same-class neighbour.',
               'Eigenvector checks are up to sign; residual tolerance 1e-8 relative (measured <= 1e-12 on the unchanged tree).']


def V(site, clause, msg, triggers=(), **detail):
    return dict(site=site, clause=clause, msg=msg, triggers=list(triggers), detail=detail)


def cases(tier, seed):
    out = []
    names = ['S2', 'S3', 'S3u', 'S5', 'R'] if tier == 'quick' else data.THOROUGH
    for dsn in names:
        out.append(('Covariance/%s' % dsn, ('cov', dsn, seed)))
        for lay in ('alphabet', 'all_chunked', 'big_chunks', 'gapped_ids'):
            out.append(('RCA/%s/%s' % (dsn, lay), ('rca', dsn, lay, seed)))
        for lay in ('given', 'small_first', 'small_last', 'renamed', 'singleton', 'duplicates'):
            out.append(('LFDA/%s/%s' % (dsn, lay), ('lfda', dsn, lay, seed)))
    out.append(('Covariance/singular', ('cov_singular', seed)))
    out.append(('Covariance/singular_diagonal', ('cov_singular_diag', seed)))
    out.append(('Covariance/ill_conditioned', ('cov_illcond', seed)))
    return out


def get_ds(dsn, seed):
    return data.dataset('R', seed) if dsn == 'R' else data.dataset(dsn)


def cov_explicit(X, ddof=1):
    mu = X.mean(0)
    C = np.zeros((X.shape[1],) * 2)
    for x in X:
        C += np.outer(x - mu, x - mu)
    return C / (len(X) - ddof)


def lfda_layout(ds, lay):
    y = ds.y.copy().astype(int)
    if lay in ('small_first', 'small_last'):
        c_small = 0 if lay == 'small_first' else int(y.max())
        c_to = 1 if lay == 'small_first' else 0
        idx = np.where(y == c_small)[0]
        y[idx[3:]] = c_to                      # the small class keeps 3 members
    elif lay == 'renamed':
        y = np.array([9, 2, 5, 7])[y]
    elif lay == 'singleton':                   # a class with exactly one member (smaller than any k)
        y[len(y) // 2] = y.max() + 1
    return y


def lfda_reference(X, y, k):
    """Local scatter matrices from the pairwise definition."""
    n, d = X.shape
    D2 = ((X[:, None] - X[None]) ** 2).sum(-1)
    sigma = np.zeros(n)
    classes, counts = np.unique(y, return_counts=True)
    nc_of = dict(zip(classes, counts))
    for i in range(n):
        same = np.where(y == y[i])[0]
        dist = np.sort(np.sqrt(D2[i, same]))           # includes the point itself at 0
        kc = min(k, len(same) - 1)
        sigma[i] = dist[kc]
    Sw = np.zeros((d, d))
    Sb = np.zeros((d, d))
    for i in range(n):
        for j in range(n):
            diff = np.outer(X[i] - X[j], X[i] - X[j])
            if y[i] == y[j]:
                den = sigma[i] * sigma[j]
                A = np.exp(-D2[i, j] / den) if den > 0 else 0.0
                nc = nc_of[y[i]]
                Sw += 0.5 * (A / nc) * diff
                Sb += 0.5 * A * (1.0 / n - 1.0 / nc) * diff
            else:
                Sb += 0.5 * (1.0 / n) * diff
    return Sb, Sw


def run_case(spec):
    warnings.simplefilter('ignore')
    kind = spec[0]
    viol, sigs = [], set()
    evals = 0
    head = {'residual': 0.0}
    TOL = 1e-8
    if kind == 'cov_illcond':
        # full rank but ill conditioned (features in very different units, exact power-of-two factors): M must still be the
        # INVERSE - compared with an exact rational inverse of the exact covariance
        from mc import exact
        from checks.c20_psd_init import finv
        ds = data.dataset('S3u')
        for ratio in (2.0 ** 10, 2.0 ** 14, 2.0 ** 18):
            X = ds.X * np.array([1.0, ratio, 1.0 / ratio])
            Xf = [exact.fvec(r) for r in X]
            n, d = X.shape
            mean = [sum(r[j] for r in Xf) / n for j in range(d)]
            C = [[sum((r[i] - mean[i]) * (r[j] - mean[j]) for r in Xf) / (n - 1) for j in range(d)] for i in range(d)]
            Ci = np.array([[float(x) for x in row] for row in finv(C)])
            cond = np.linalg.cond(np.array([[float(x) for x in row] for row in C]))
            for dt in (np.float64, np.float32):       # the float32 copy holds exactly the same numbers (dyadic grid)
                Xd = X.astype(dt)
                if not np.array_equal(Xd.astype(float), X):
                    continue
                M = ml.Covariance().fit(Xd).get_mahalanobis_matrix()
                evals += 1
                rel = (np.abs(M - Ci) / np.sqrt(np.outer(np.abs(np.diag(Ci)), np.abs(np.diag(Ci))))).max()
                head['residual'] = max(head['residual'], rel / (1e3 * cond * 2.2e-16))
                if not rel <= 1e3 * cond * 2.2e-16:
                    viol.append(V('Covariance.fit', 'not_inverse', 'covariance with condition number %.3g (%s input): M differs from the exact '
                                  'inverse by %.3g (scaled entrywise)' % (cond, np.dtype(dt).name, rel), ['ill_conditioned', np.dtype(dt).name]))
                sigs.add(('Covariance', 'illcond', ratio, np.dtype(dt).name))
        return dict(evals=evals, sigs=sigs, viol=viol, headroom=head,
                    sample={'learner': 'Covariance', 'data': 'S3u with feature scales 1, r, 1/r for r in 2^10, 2^14, 2^18'})
    if kind in ('cov', 'cov_singular', 'cov_singular_diag'):
        if kind == 'cov_singular_diag':
            # a covariance that is singular AND exactly diagonal: a two-level factorial design plus a constant feature
            import itertools
            F = np.array(list(itertools.product((-1.0, 1.0), repeat=3)))
            X = np.hstack([np.vstack([F, F * 3.0]), np.full((16, 1), 2.5)])
            lab = 'factorial design + constant feature'
        elif kind == 'cov':
            ds = get_ds(spec[1], spec[2])
            X = ds.X.copy()
            lab = spec[1]
        else:
            ds = data.dataset('S3u')
            X = np.hstack([ds.X, ds.X[:, :1], ds.X[:, 1:2] - ds.X[:, :1]])      # two dependent features: rank 3 of 5
            lab = 'S3u+dependent features'
        est = ml.Covariance().fit(X)
        evals += 1
        M = est.get_mahalanobis_matrix()
        C = cov_explicit(X)
        sc = np.abs(C).max()
        cond = np.linalg.cond(C) if kind == 'cov' else 1e4
        t = 1e-10 * max(cond, 1.0)
        r = [np.abs(M.dot(C).dot(M) - M).max() / np.abs(M).max(), np.abs(C.dot(M).dot(C) - C).max() / sc,
             np.abs(M - M.T).max() / np.abs(M).max(), np.abs(M.dot(C) - (M.dot(C)).T).max()]
        if not np.isfinite(M).all():
            viol.append(V('Covariance.fit', 'not_pseudo_inverse', 'M contains NaN / inf on %s' % lab, [kind]))
            r = [0.0]
        head['residual'] = max(r) / t
        if not max(r) <= t:
            viol.append(V('Covariance.fit', 'not_pseudo_inverse', 'M violates the Moore-Penrose conditions w.r.t. the sample covariance '
                          '(residuals %s) on %s' % (['%.2g' % x for x in r], lab), [kind]))
        if kind == 'cov' and np.abs(M - np.linalg.inv(C)).max() > t * np.abs(M).max():
            viol.append(V('Covariance.fit', 'not_inverse', 'M is not the inverse of the sample covariance on %s' % lab, [kind]))
        sigs.add(('Covariance', lab, int(np.linalg.matrix_rank(C))))
        return dict(evals=evals, sigs=sigs, viol=viol, headroom=head, sample={'learner': 'Covariance', 'data': lab, 'rank_of_covariance': int(np.linalg.matrix_rank(C))})

    if kind == 'rca':
        _, dsn, lay, seed = spec
        ds = get_ds(dsn, seed)
        X = ds.X.copy()
        n, d = X.shape
        if lay == 'alphabet':
            ch = ds.chunks.copy()
        elif lay == 'gapped_ids':
            ch = ds.chunks.copy()                 # chunklet names that are neither contiguous nor start at 0
            ch[ch >= 0] = 2 * ch[ch >= 0] + 3
        elif lay == 'all_chunked':
            ch = np.arange(n) // 2
            ch[-1] = ch[-2]                      # odd n: last chunk gets three points
            ch = np.array([c if (ds.y[i] == ds.y[np.where(ch == c)[0][0]]) else c for i, c in enumerate(ch)])
        else:
            ch = ds.y.copy().astype(int)         # one big chunk per class, sizes unbalanced
            ch[::5] = -1
        mask = ch >= 0
        Xc = X[mask]
        N = len(Xc)
        Cw = np.zeros((d, d))
        for c in np.unique(ch[mask]):
            P = X[ch == c]
            m = P.mean(0)
            for x in P:
                Cw += np.outer(x - m, x - m)
        Cw /= N
        if np.linalg.matrix_rank(Cw) < d:
            return dict(evals=0, sigs=[], viol=[], stats={'rca_layout_rank_deficient_skipped': 1})
        Ct = cov_explicit(Xc)
        for nc in [None] + list(range(1, d + 1)):
            est = ml.RCA(n_components=nc).fit(X, ch)
            evals += 1
            L = est.components_
            k = nc or d
            tr = [lay, 'n_components=%s' % nc]
            if L.shape != (k, d) or np.iscomplexobj(L):
                viol.append(V('RCA.fit', 'shape', 'components_ has shape %s dtype %s' % (L.shape, L.dtype), tr))
                continue
            W = L.dot(Cw).dot(L.T)
            r1 = np.abs(W - np.eye(k)).max()
            # retained directions: k smallest generalised eigenvalues of (Cw, Ct), via the symmetric whitened problem
            wt, Ut = np.linalg.eigh(Ct)
            Cti = (Ut / np.sqrt(wt)).dot(Ut.T)
            wv, Uv = np.linalg.eigh(Cti.dot(Cw).dot(Cti))
            Vk = Cti.dot(Uv[:, :k])
            Mref = Vk.dot(np.linalg.inv(Vk.T.dot(Cw).dot(Vk))).dot(Vk.T)
            M = est.get_mahalanobis_matrix()
            gap = (wv[k] - wv[k - 1]) / wv[-1] if k < d else 1.0
            r2 = np.abs(M - Mref).max() / np.abs(Mref).max()
            head['residual'] = max(head['residual'], r1 / TOL, (r2 / TOL) if gap > 1e-3 else 0)
            if not r1 <= TOL:
                viol.append(V('RCA.fit', 'not_whitening', 'within-chunk covariance of the transformed data differs from the identity by %.3g '
                              '[%s, %s, n_components=%s]' % (r1, dsn, lay, nc), tr))
            if gap > 1e-3 and not r2 <= TOL:
                viol.append(V('RCA.fit', 'wrong_directions', 'M differs from V (V^T C_w V)^-1 V^T for the %d directions of largest total-to-within '
                              'variance ratio by %.3g relative [%s, %s]' % (k, r2, dsn, lay), tr))
            sigs.add(('RCA', dsn, lay, nc))
        return dict(evals=evals, sigs=sigs, viol=viol, headroom=head,
                    sample={'learner': 'RCA', 'dataset': dsn, 'layout': lay, 'chunks': ch.tolist(), 'n_components': 'None,1..%d' % d})

    if kind == 'lfda':
        _, dsn, lay, seed = spec
        ds = get_ds(dsn, seed)
        X = ds.X.copy()
        y = lfda_layout(ds, lay)
        if lay == 'duplicates':                # repeated measurements: identical rows inside a class (and one across classes)
            big = np.bincount(y).argmax()
            same = np.where(y == big)[0]
            X[same[1]] = X[same[0]]
        n, d = X.shape
        ks = [None] + list(range(1, d))
        ncs = [None] + list(range(1, d + 1))
        if d > 3:
            ncs = [None, 1, 2, d - 1]
        for k in ks:
            keff = min(7, d - 1) if k is None else k
            Sb, Sw = lfda_reference(X, y, keff)
            if np.linalg.cond(Sw) > 1e8:
                continue                # duplicated rows made the within-class scatter (numerically) singular: not well-formed
            lam_all = np.sort(scipy.linalg.eigh(Sb, Sw, eigvals_only=True))[::-1]
            for nc in ncs:
                dim = nc or d
                fits = {}
                for emb in ('plain', 'weighted', 'orthonormalized'):
                    est = ml.LFDA(n_components=nc, k=k, embedding_type=emb).fit(X, y)
                    fits[emb] = est.components_
                    evals += 1
                tr = [lay, 'k=%s' % k, 'n_components=%s' % nc]
                Lp = fits['plain']
                if Lp.shape != (dim, d):
                    viol.append(V('LFDA.fit', 'shape', 'components_ has shape %s' % (Lp.shape,), tr))
                    continue
                lams = []
                bad = None
                for i, v in enumerate(Lp):
                    lam = v.dot(Sb).dot(v) / v.dot(Sw).dot(v)
                    lams.append(lam)
                    res = np.linalg.norm(Sb.dot(v) - lam * Sw.dot(v)) / max(np.linalg.norm(Sb.dot(v)), 1e-300)
                    head['residual'] = max(head['residual'], res / TOL)
                    if not res <= TOL and bad is None:
                        bad = (i, res)
                lams = np.array(lams)
                if bad:
                    viol.append(V('LFDA.fit', 'not_generalised_eigenvector', 'row %d of components_ is not a generalised eigenvector of the '
                                  'pairwise-defined local scatter matrices (relative residual %.3g) [%s, %s, k=%s, n_components=%s]'
                                  % (bad[0], bad[1], dsn, lay, k, nc), tr))
                    continue
                if np.abs(lams - lam_all[:dim]).max() > 1e-6 * max(lam_all[0], 1e-300):
                    viol.append(V('LFDA.fit', 'not_leading_or_unordered', 'rows are not the LEADING eigenvectors in decreasing order of eigenvalue '
                                  '(got %s, expected %s)' % (np.round(lams, 6).tolist(), np.round(lam_all[:dim], 6).tolist()), tr))
                    continue
                # weighted: plain rows scaled by sqrt(eigenvalue)
                Lw = fits['weighted']
                okw = Lw.shape == Lp.shape
                if okw:
                    for i in range(dim):
                        # direction: same generalised eigenvector; scale: ||row_w|| / ||row_p|| = sqrt(lambda_i)
                        ratio = np.linalg.norm(Lw[i]) / np.linalg.norm(Lp[i])
                        cosang = abs(Lw[i].dot(Lp[i])) / (np.linalg.norm(Lw[i]) * np.linalg.norm(Lp[i]))
                        if abs(cosang - 1) > 1e-8 or abs(ratio - np.sqrt(max(lams[i], 0))) > 1e-6 * max(1.0, np.sqrt(lam_all[0])):
                            viol.append(V('LFDA.fit', 'weighted_scaling', "embedding_type='weighted': row %d is scaled by %.6g, the square root of "
                                          'its eigenvalue is %.6g [%s, %s, k=%s]' % (i, ratio, np.sqrt(max(lams[i], 0)), dsn, lay, k), tr + ['weighted']))
                            break
                # orthonormalized: orthonormal rows, same span
                Lo = fits['orthonormalized']
                if Lo.shape != Lp.shape or np.abs(Lo.dot(Lo.T) - np.eye(dim)).max() > 1e-8:
                    viol.append(V('LFDA.fit', 'orthonormalized', "embedding_type='orthonormalized': rows are not orthonormal", tr))
                else:
                    P1 = Lo.T.dot(Lo)
                    Qp, _ = np.linalg.qr(Lp.T)
                    if np.abs(P1 - Qp.dot(Qp.T)).max() > 1e-7:
                        viol.append(V('LFDA.fit', 'orthonormalized', "embedding_type='orthonormalized': span differs from the leading eigenvectors'", tr))
                    else:
                        # ... of the eigenvectors IN THEIR ORDER: the first j rows span the j leading eigenvectors (judged where the
                        # j-th and (j+1)-th eigenvalues are clearly separated)
                        for j in range(1, dim):
                            if lams[j - 1] - lams[j] <= 1e-6 * max(lam_all[0], 1e-300):
                                continue
                            Qj, _ = np.linalg.qr(Lp[:j].T)
                            if np.abs(Lo[:j].T.dot(Lo[:j]) - Qj.dot(Qj.T)).max() > 1e-7:
                                viol.append(V('LFDA.fit', 'orthonormalized', "embedding_type='orthonormalized': the first %d row(s) do not span the %d "
                                              'leading eigenvector(s) - the rows are not ordered by decreasing eigenvalue [%s, %s, k=%s]'
                                              % (j, j, dsn, lay, k), tr + ['orthonormalized']))
                                break
                sigs.add(('LFDA', dsn, lay, k, nc))
        return dict(evals=evals, sigs=sigs, viol=viol, headroom=head,
                    sample={'learner': 'LFDA', 'dataset': dsn, 'layout': lay, 'labels': y.tolist(), 'k': 'None,1..%d' % (d - 1),
                            'embedding_types': 3})
