"""C06 - malformed input is always rejected with ValueError; equivalent array-likes are equivalent
(DESIGN.md section 5, C06).

E1, deviation bounded: the well-formed call is the default; every single malformation of an enumerated grammar is
applied to one argument of every data-taking method of every estimator, with and without a preprocessor (thorough:
also pairs of malformations).  Equivalence half: the same integer-valued training data given as float64 C array, int64
array, nested list of ints, Fortran-ordered and strided view.
"""
import itertools
import warnings

import numpy as np

from mc import env  # noqa: F401
from mc import data, zoo

PID = 'C06'
LEVEL = 'exploration'
RULE = ('17 estimators x data-taking methods {fit, transform, pair_distance, pair_score, score_pairs, predict, '
        'decision_function, score, calibrate_threshold} x single malformations {ndim 0..4, tuple size 1..5, empty sample / '
        'feature axis, NaN / +inf / -inf at first / middle / last position, object dtype, str entry, ragged list, feature '
        'count != fitted, pair labels 0 / 2 / 0.5, length mismatch, n_components in {0,-1,d+1}} x {without, with array '
        'preprocessor (formed data and indices into a table containing the bad point)}; thorough adds all pairs of '
        'malformations of the data argument. signature = (estimator, method, malformation, preprocessor?, outcome class)')
ASSUMPTIONS = ['Expected outcome for every listed malformation: an exception that is an instance of ValueError (never a '
               'return value, never another exception type).',
               'Pair-label alphabet and length-mismatch clauses are applied to fit and calibrate_threshold (where the labels '
               'are documented as +1 / -1); score(pairs, y) delegates label handling to roc_auc_score and is not judged on labels.',
               'Equivalence tolerance: 1e-9 relative on M for closed-form / convex learners, 1e-5 for L-BFGS / gradient learners '
               '(>= 100x the worst deviation measured on the unchanged tree).']
BOUNDS = {'quick': dict(pairs_of_deviations=False, datasets=['S3u']),
          'thorough': dict(pairs_of_deviations=True, datasets=['S3u', 'S2'])}


def V(site, clause, msg, triggers=(), **detail):
    return dict(site=site, clause=clause, msg=msg, triggers=list(triggers), detail=detail)


# ----------------------------------------------------------------------------- malformations of a data argument
def point_malformations(X, fitted_d=None, with_pre=False):
    """name -> malformed replacement of a well-formed 2-D points array."""
    n, d = X.shape
    m = {}
    m['ndim0'] = np.float64(1.5)
    m['ndim0_python_float'] = 1.5
    m['ndim0_0d_ndarray'] = np.array(1.5)
    if not with_pre:
        m['ndim1'] = X[:, 0].copy()
    m['ndim3'] = X.reshape(n, 1, d).repeat(2, axis=1) if False else np.stack([X, X], axis=1)
    m['ndim4'] = X.reshape(n, 1, 1, d)
    m['empty_samples'] = np.empty((0, d))
    m['empty_features'] = np.empty((n, 0))
    for nm, val in (('nan', np.nan), ('posinf', np.inf), ('neginf', -np.inf)):
        for pos, ij in (('first', (0, 0)), ('middle', (n // 2, d // 2)), ('last', (n - 1, d - 1))):
            Y = X.copy()
            Y[ij] = val
            m['%s_%s' % (nm, pos)] = Y
    Y = X.astype(object)
    Y[1, 0] = None
    m['object_none'] = Y
    m['numeric_strings'] = X.astype(str)             # str dtype whose entries all LOOK like numbers
    m['numeric_bytes'] = X.astype('S')
    L = X.tolist()
    L[0][0] = 'a'
    m['str_entry'] = L
    L = X.tolist()
    L[-1] = L[-1][:-1]
    m['ragged'] = L
    if fitted_d is not None:
        m['features_plus1'] = np.hstack([X, X[:, :1]])
        if d > 1:
            m['features_minus1'] = X[:, :-1].copy()
        if d > 2:
            m['features_one'] = X[:, :1].copy()           # exactly one feature (a length-1 axis broadcasts silently in many numpy ops)
    return m


def tuple_malformations(T, fitted_d=None, with_pre=False):
    n, t, d = T.shape
    m = {}
    m['ndim0'] = np.float64(1.5)
    m['ndim0_python_float'] = 1.5
    m['ndim0_0d_ndarray'] = np.array(1.5)
    m['ndim1'] = T[:, 0, 0].copy()
    if not with_pre:
        m['ndim2'] = T[:, :, 0].copy()
    m['ndim4'] = T.reshape(n, t, 1, d)
    for k in range(1, 6):
        if k != t:
            m['tuple_size_%d' % k] = np.concatenate([T] * 3, axis=1)[:, :k].copy()
    m['empty_samples'] = np.empty((0, t, d))
    m['empty_features'] = np.empty((n, t, 0))
    for nm, val in (('nan', np.nan), ('posinf', np.inf), ('neginf', -np.inf)):
        for pos, ijk in (('first', (0, 0, 0)), ('middle', (n // 2, t // 2, d // 2)), ('last', (n - 1, t - 1, d - 1))):
            Y = T.copy()
            Y[ijk] = val
            m['%s_%s' % (nm, pos)] = Y
    Y = T.astype(object)
    Y[1, 0, 0] = None
    m['object_none'] = Y
    L = T.tolist()
    L[0][0][0] = 'a'
    m['str_entry'] = L
    m['numeric_strings'] = T.astype(str)
    m['numeric_bytes'] = T.astype('S')
    L = T.tolist()
    L[-1][-1] = L[-1][-1][:-1]
    m['ragged'] = L
    if fitted_d is not None:
        m['features_plus1'] = np.concatenate([T, T[:, :, :1]], axis=2)
        if d > 1:
            m['features_minus1'] = T[:, :, :-1].copy()
        if d > 2:
            m['features_one'] = T[:, :, :1].copy()
    return m


def compose(m1, m2, base):
    """Apply two single malformations when they commute on disjoint aspects (value poisoning x shape change)."""
    return None


# ----------------------------------------------------------------------------- cases
def cases(tier, seed):
    b = BOUNDS[tier]
    out = []
    for dsn in b['datasets']:
        for name in zoo.ALL:
            for pre in (False, True):
                out.append(('%s/%s/%s' % (name, dsn, 'pre' if pre else 'nopre'), ('mal', name, dsn, pre, b['pairs_of_deviations'])))
    for dsn in ('S2', 'S3u') if tier == 'quick' else ('S2', 'S3u', 'S5'):
        for name in zoo.ALL:
            out.append(('%s/%s/equiv' % (name, dsn), ('equiv', name, dsn)))
    return out


def cost(spec):
    return 3 if spec[0] == 'equiv' else 1


def expect_value_error(viol, sigs, site, mal, pre, f, *a, **k):
    try:
        with warnings.catch_warnings():
            warnings.simplefilter('ignore')
            r = f(*a, **k)
    except ValueError:
        sigs.add((site, mal, pre, 'ValueError'))
        return 1
    except Exception as e:
        viol.append(V(site, 'wrong_exception', '%s with %s%s raised %s (%s), not ValueError'
                      % (site, mal, ' [preprocessor]' if pre else '', type(e).__name__, str(e)[:120]),
                      [mal, type(e).__name__] + (['with_preprocessor'] if pre else []), malformation=mal))
        sigs.add((site, mal, pre, type(e).__name__))
        return 1
    viol.append(V(site, 'accepted', '%s with %s%s returned %s instead of raising ValueError'
                  % (site, mal, ' [preprocessor]' if pre else '', type(r).__name__),
                  [mal] + (['with_preprocessor'] if pre else []), malformation=mal))
    sigs.add((site, mal, pre, 'returned'))
    return 1


def run_case(spec):
    warnings.simplefilter('ignore')
    if spec[0] == 'equiv':
        return run_equiv(spec[1], spec[2])
    _, name, dsn, pre, pairs_dev = spec
    ds = data.dataset(dsn)
    kind = zoo.KIND[name]
    d = ds.d
    viol, sigs = [], set()
    evals = 0
    over = {'preprocessor': ds.X.copy()} if pre else {}
    args = zoo.train_args(name, ds, 'formed')
    tuple_fit = kind in zoo.TUPLE_SIZE
    # ---------------- fit: malformations of the data argument
    base = np.array(args[0], dtype=float)
    mals = tuple_malformations(base, None, pre) if tuple_fit else point_malformations(base, None, pre)
    for mal, bad in mals.items():
        est = zoo.make(name, ds, **over)
        rest = args[1:]
        if hasattr(bad, 'shape') and bad.ndim >= 1 and len(rest) and bad.shape[0] != len(rest[0]):
            rest = tuple(np.asarray(r)[:bad.shape[0]] for r in rest)      # keep lengths consistent: one deviation at a time
        evals += expect_value_error(viol, sigs, name + '.fit', mal, pre, est.fit, bad, *rest)
    # labels
    if len(args) > 1:
        y = np.asarray(args[1])
        est = zoo.make(name, ds, **over)
        evals += expect_value_error(viol, sigs, name + '.fit', 'length_mismatch_short_y', pre, est.fit, args[0], y[:-1])
        est = zoo.make(name, ds, **over)
        evals += expect_value_error(viol, sigs, name + '.fit', 'length_mismatch_long_y', pre, est.fit, args[0], np.r_[y, y[:1]])
        if kind == 'pairs':
            for lab, val in (('label_0', 0), ('label_2', 2), ('label_half', 0.5), ('label_1.000001', 1.000001), ('label_-0.999995', -0.999995)):
                yb = y.astype(float).copy()
                yb[1] = val
                est = zoo.make(name, ds, **over)
                evals += expect_value_error(viol, sigs, name + '.fit', lab, pre, est.fit, args[0], yb)
            yb = np.where(y == 1, 1, 0)
            evals += expect_value_error(viol, sigs, name + '.fit', 'labels_01', pre, zoo.make(name, ds, **over).fit, args[0], yb)
    # NaN / inf in a row that carries the UNKNOWN label (no constraint will ever use it): still malformed data
    if kind == 'class' and name.endswith('_Supervised'):
        for mal, val in (('nan_in_unlabeled_row', np.nan), ('inf_in_unlabeled_row', np.inf)):
            for pos in (0, len(base) // 2, len(base) - 1):
                Xb = base.copy()
                Xb[pos, -1] = val
                yb = np.asarray(args[1]).copy()
                yb[pos] = -1
                est = zoo.make(name, ds, **over)
                evals += expect_value_error(viol, sigs, name + '.fit', '%s@%d' % (mal, pos), pre, est.fit, Xb, yb)
    # n_components
    if 'n_components' in zoo.cls(name)().get_params():
        for nc in (0, -1, d + 1):
            est = zoo.make(name, ds, **dict(over, n_components=nc))
            evals += expect_value_error(viol, sigs, name + '.fit', 'n_components=%s' % ('d+1' if nc == d + 1 else nc), pre, est.fit, *args)
    # indices into a table that contains a bad point
    if pre:
        for mal, val in (('table_nan', np.nan), ('table_inf', np.inf)):
            tab = ds.X.copy()
            tab[int(np.asarray(zoo.train_args(name, ds, 'index')[0]).ravel()[0]), 0] = val
            est = zoo.make(name, ds, preprocessor=tab)
            evals += expect_value_error(viol, sigs, name + '.fit', mal + '_via_indices', pre, est.fit, *zoo.train_args(name, ds, 'index'))
        # history: a FITTED estimator (array preprocessor A) gets a malformed table B via set_params, then indices again
        for mal, val in (('replaced_table_nan', np.nan), ('replaced_table_inf', np.inf)):
            tab = ds.X.copy()
            tab[int(np.asarray(zoo.train_args(name, ds, 'index')[0]).ravel()[0]), 0] = val
            est = zoo.make(name, ds, preprocessor=ds.X.copy()).fit(*zoo.train_args(name, ds, 'index'))
            est.set_params(preprocessor=tab)
            evals += expect_value_error(viol, sigs, name + '.fit', mal + '_via_indices', pre, est.fit, *zoo.train_args(name, ds, 'index'))
    # ---------------- query methods on a fitted estimator
    est = zoo.fit(name, ds, **over)
    Q = ds.X[:6].copy()
    P = np.array([[ds.X[i], ds.X[i + 1]] for i in range(6)])
    for mal, bad in point_malformations(Q, d, pre).items():
        evals += expect_value_error(viol, sigs, name + '.transform', mal, pre, est.transform, bad)
    # the SAME array object, accepted once, then edited in place (NaN / inf written into it) and handed over again: validity is a
    # property of the content at call time, not of the object
    for val_name, val in (('nan', np.nan), ('posinf', np.inf)):
        buf = np.array(Q, dtype=float)
        est.transform(buf)
        buf[1, 0] = val
        evals += expect_value_error(viol, sigs, name + '.transform', 'same_array_edited_in_place_' + val_name, pre, est.transform, buf)
        pbuf = np.array(P, dtype=float)
        est.pair_distance(pbuf)
        pbuf[1, 0, 0] = val
        evals += expect_value_error(viol, sigs, name + '.pair_distance', 'same_array_edited_in_place_' + val_name, pre, est.pair_distance, pbuf)
        if not pre:
            targs = zoo.train_args(name, ds, 'formed')
            tbuf = np.array(targs[0], dtype=float)
            e2 = zoo.make(name, ds, **over)
            e2.fit(tbuf, *targs[1:])
            tbuf[(1,) + (0,) * (tbuf.ndim - 1)] = val
            evals += expect_value_error(viol, sigs, name + '.fit', 'same_array_edited_in_place_' + val_name, pre, e2.fit, tbuf, *targs[1:])
    pm = tuple_malformations(P, d, pre)
    for meth in ('pair_distance', 'pair_score', 'score_pairs'):
        for mal, bad in pm.items():
            evals += expect_value_error(viol, sigs, name + '.' + meth, mal, pre, getattr(est, meth), bad)
    if tuple_fit:
        t = zoo.TUPLE_SIZE[kind]
        T = np.array([[ds.X[(i + j) % len(ds.X)] for j in range(t)] for i in range(6)])
        tm = tuple_malformations(T, d, pre)
        yq = np.array([1, -1, 1, -1, 1, -1])
        for mal, bad in tm.items():
            evals += expect_value_error(viol, sigs, name + '.predict', mal, pre, est.predict, bad)
            evals += expect_value_error(viol, sigs, name + '.decision_function', mal, pre, est.decision_function, bad)
            if kind == 'pairs':
                yb = yq[:bad.shape[0]] if hasattr(bad, 'shape') and bad.ndim >= 1 else yq
                evals += expect_value_error(viol, sigs, name + '.score', mal, pre, est.score, bad, yb)
                evals += expect_value_error(viol, sigs, name + '.calibrate_threshold', mal, pre, est.calibrate_threshold, bad, yb)
            else:
                evals += expect_value_error(viol, sigs, name + '.score', mal, pre, est.score, bad)
        if kind == 'pairs':
            for lab, val in (('label_0', 0), ('label_2', 2), ('label_half', 0.5), ('label_1.000001', 1.000001), ('label_-0.999995', -0.999995)):
                yb = yq.astype(float).copy()
                yb[1] = val
                for strat in (dict(strategy='accuracy'), dict(strategy='f_beta', beta=1.0), dict(strategy='max_tpr', min_rate=0.5),
                              dict(strategy='max_tnr', min_rate=0.5)):
                    evals += expect_value_error(viol, sigs, name + '.calibrate_threshold', lab + ':' + strat['strategy'], pre,
                                                est.calibrate_threshold, T, yb, **strat)
            for strat in (dict(strategy='accuracy'), dict(strategy='f_beta', beta=1.0), dict(strategy='max_tpr', min_rate=0.5)):
                evals += expect_value_error(viol, sigs, name + '.calibrate_threshold', 'labels_01:' + strat['strategy'], pre,
                                            est.calibrate_threshold, T, np.where(yq == 1, 1, 0), **strat)
                evals += expect_value_error(viol, sigs, name + '.calibrate_threshold', 'length_mismatch:' + strat['strategy'], pre,
                                            est.calibrate_threshold, T, yq[:-1], **strat)
            evals += expect_value_error(viol, sigs, name + '.score', 'length_mismatch', pre, est.score, T, yq[:-1])
        # pairs of deviations (thorough): value poisoning combined with a tuple-size / ndim change
        if pairs_dev:
            val_m = [k for k in tm if k.split('_')[0] in ('nan', 'posinf', 'neginf', 'str', 'object')]
            shp_m = [k for k in tm if k.startswith(('tuple_size', 'features_'))]
            for a, b2 in itertools.product(val_m, shp_m):
                bad = np.array(tm[b2], dtype=float, copy=True)
                if bad.size == 0:
                    continue
                bad.flat[0] = {'nan': np.nan, 'posinf': np.inf, 'neginf': -np.inf}.get(a.split('_')[0], np.nan)
                evals += expect_value_error(viol, sigs, name + '.decision_function', a + '+' + b2, pre, est.decision_function, bad)
                evals += expect_value_error(viol, sigs, name + '.predict', a + '+' + b2, pre, est.predict, bad)
    if pairs_dev:
        pmk = [k for k in pm if k.startswith(('tuple_size', 'features_'))]
        for b2 in pmk:
            for val in (np.nan, np.inf):
                bad = np.array(pm[b2], dtype=float, copy=True)
                bad.flat[-1] = val
                evals += expect_value_error(viol, sigs, name + '.pair_distance', '%r+%s' % (val, b2), pre, est.pair_distance, bad)
    return dict(evals=evals, sigs=sigs, viol=viol,
                sample={'estimator': name, 'dataset': dsn, 'with_preprocessor': pre, 'fit_malformations': sorted(mals)[:8] + ['...']})


def run_equiv(name, dsn):
    ds0 = data.dataset(dsn)
    ds = data.scaled(ds0, 64.0)              # integer-valued coordinates (signed, up to a few hundred)
    assert np.array_equal(ds.X, np.round(ds.X))
    kind = zoo.KIND[name]
    viol, sigs = [], set()
    evals = 0
    loose = name in ('LMNN', 'NCA', 'MLKR', 'SCML', 'SCML_Supervised')
    tol = 1e-5 if loose else 1e-9
    worst = 0.0
    cfgs = [('base', {})]
    if 'n_components' in zoo.cls(name)().get_params():
        cfgs.append(('n_components=1', {'n_components': 1}))
    for clab, over in cfgs:
        args = zoo.train_args(name, ds, 'formed')
        A = np.array(args[0], dtype=float)
        rest = args[1:]
        ref = zoo.make(name, ds, **over).fit(A.copy(), *rest)
        Mref = ref.get_mahalanobis_matrix()
        wide = np.zeros(tuple(2 * s for s in A.shape))
        sl = tuple(slice(None, None, 2) for _ in A.shape)
        wide[sl] = A
        variants = {'int64': A.astype(np.int64), 'nested_list_of_ints': A.astype(np.int64).tolist(),
                    'fortran': np.asfortranarray(A), 'strided_view': wide[sl]}
        for vn, Av in variants.items():
            evals += 1
            try:
                e = zoo.make(name, ds, **over).fit(Av, *rest)
            except Exception as ex:
                viol.append(V(name + '.fit', 'equivalent_raises', 'fit on the %s form of the same numbers raised %s: %s'
                              % (vn, type(ex).__name__, str(ex)[:120]), [vn, clab]))
                continue
            M = e.get_mahalanobis_matrix()
            if M.shape != Mref.shape:
                viol.append(V(name + '.fit', 'equivalent_differs', 'fit on %s gives M of another shape' % vn, [vn, clab]))
                continue
            dev = float(np.abs(M - Mref).max() / max(np.abs(Mref).max(), 1e-300))
            worst = max(worst, dev / tol)
            sigs.add((name, clab, vn, dsn))
            if not dev <= tol:
                viol.append(V(name + '.fit', 'equivalent_differs', 'fit on the %s form of the same numbers gives another metric '
                              '(relative deviation %.3g > %.0e) [%s]' % (vn, dev, tol, clab), [vn, clab], deviation=dev))
            if isinstance(Av, np.ndarray) and vn != 'strided_view' and not np.array_equal(Av, variants[vn] if False else Av):
                pass
        # small and unsigned integer dtypes (differences must not wrap, squares must not overflow): a non-negative copy of the data
        shift = ds0.X.min(0)
        fac = 2.0 ** np.floor(np.log2(250.0 / (ds0.X - shift).max()))
        dsu = data.scaled(ds0, 1.0)
        dsu.X = np.round((ds0.X - shift) * fac)
        dsu.pairs, dsu.quads, dsu.quads_sat, dsu.trip = (dsu.X[ds0.pairs_idx], dsu.X[ds0.quads_idx], dsu.X[ds0.quads_sat_idx],
                                                         dsu.X[ds0.trip_idx])
        argsu = zoo.train_args(name, dsu, 'formed')
        Au = np.array(argsu[0], dtype=float)
        try:
            refu = zoo.make(name, dsu, **over).fit(Au.copy(), *argsu[1:]).get_mahalanobis_matrix()
        except Exception:
            refu = None
        if refu is not None:
            for dt in (np.uint8, np.uint16, np.int16, np.int32, np.uint32, np.uint64):
                evals += 1
                vn = np.dtype(dt).name
                try:
                    Mu = zoo.make(name, dsu, **over).fit(Au.astype(dt), *argsu[1:]).get_mahalanobis_matrix()
                except Exception as ex:
                    viol.append(V(name + '.fit', 'equivalent_raises', 'fit on the %s form of the same numbers raised %s: %s'
                                  % (vn, type(ex).__name__, str(ex)[:100]), [vn, clab]))
                    continue
                dev = float(np.abs(Mu - refu).max() / max(np.abs(refu).max(), 1e-300)) if np.isfinite(Mu).all() else np.inf
                worst = max(worst, dev / tol)
                sigs.add((name, clab, vn, dsn))
                if not dev <= tol:
                    viol.append(V(name + '.fit', 'equivalent_differs', 'fit on the %s form of the same numbers gives another metric (relative '
                                  'deviation %.3g) [%s]' % (vn, dev, clab), [vn, clab], deviation=dev))
        # the caller's array must be left as it was (float64 C input)
        A2 = A.copy()
        zoo.make(name, ds, **over).fit(A2, *rest)
        if not np.array_equal(A2, A):
            viol.append(V(name + '.fit', 'equivalent_mutates', 'fit modified the float64 training array in place', [clab]))
    return dict(evals=evals, sigs=sigs, viol=viol, headroom={'equivalence': worst},
                sample={'estimator': name, 'dataset': ds.name, 'forms': ['float64 C', 'int64', 'nested list of ints', 'Fortran', 'strided view']})
