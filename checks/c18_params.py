"""C18 - constructor parameters round-trip: get_params, set_params, clone, pickle (DESIGN.md section 5, C18).

E1: 17 estimators x every constructor parameter x value alphabet (default, documented alternatives, sentinel object,
ndarray, callable).  E2: breadth-first search over {set_params(p=v), clone, pickle round trip} against a plain-dict
reference model.  Plus: deprecated aliases, NotFittedError on every query method of an unfitted estimator, clone-then-fit
and pickle-of-fitted bit-identity (with array-valued options).
"""
import copy
import inspect
import pickle
import warnings

import numpy as np
from sklearn.base import clone
from sklearn.exceptions import NotFittedError

from mc import env  # noqa: F401
from mc import data, zoo
from mc.bfs import Search
from mc.snapshot import digest

PID = 'C18'
LEVEL = 'model_checking'
RULE = ('17 estimators x every non-deprecated constructor parameter x {default, documented alternatives, sentinel, ndarray, '
        'callable} through the constructor and through set_params (identity of the stored object); BFS depth 3 (quick) / 6 (thorough) '
        'over {set_params of 4 (parameter, value) pairs, clone, pickle} against a dict reference model; aliases; unfitted '
        'queries; clone+fit and pickle bit-identity for base and array-valued configurations; signature = (estimator, '
        'parameter, value kind) / (event, successor state)')
ASSUMPTIONS = ['LFDA.embedding_type is only given its three documented values (its constructor validates it), as stated in '
               'DESIGN.md.', 'clone / pickle are required to preserve values (equality), not identity.']
BOUNDS = {'quick': dict(depth=3), 'thorough': dict(depth=6)}

ALIASES = {'LMNN': [('k', 'n_neighbors', 5)], 'RCA_Supervised': [('num_chunks', 'n_chunks', 7)],
           'ITML': [('convergence_threshold', 'tol', 0.125), ('convergence_threshold', 'tol', 0.0)],
           'MMC': [('convergence_threshold', 'tol', 0.125), ('convergence_threshold', 'tol', 0.0)],
           'ITML_Supervised': [('convergence_threshold', 'tol', 0.125), ('convergence_threshold', 'tol', 0.0),
                               ('num_constraints', 'n_constraints', 9)],
           'MMC_Supervised': [('convergence_threshold', 'tol', 0.125), ('num_constraints', 'n_constraints', 9)],
           'SDML_Supervised': [('num_constraints', 'n_constraints', 9), ('num_constraints', 'n_constraints', None)],
           'LSML_Supervised': [('num_constraints', 'n_constraints', 9), ('num_constraints', 'n_constraints', None)]}
ALIASES['ITML_Supervised'].append(('num_constraints', 'n_constraints', None))          # None is a valid value of the replacement
ALIASES['MMC_Supervised'].append(('num_constraints', 'n_constraints', None))
ALTERNATIVES = {'init': ['auto', 'pca', 'lda', 'identity', 'random', 'covariance'], 'prior': ['identity', 'covariance', 'random'],
                'basis': ['triplet_diffs', 'lda'], 'embedding_type': ['weighted', 'orthonormalized', 'plain'],
                'diagonal': [True, False], 'verbose': [True, False]}


class Sentinel(object):
    def __init__(self, tag):
        self.tag = tag

    def __eq__(self, o):
        return isinstance(o, Sentinel) and o.tag == self.tag

    def __hash__(self):
        return hash(self.tag)

    def __repr__(self):
        return 'Sentinel(%r)' % self.tag


def a_callable(x):
    return x


def V(site, clause, msg, triggers=(), **detail):
    return dict(site=site, clause=clause, msg=msg, triggers=list(triggers), detail=detail)


def cases(tier, seed):
    out = []
    for name in zoo.ALL:
        out.append((name + '/params', ('params', name)))
        out.append((name + '/bfs', ('bfs', name, BOUNDS[tier]['depth'])))
        out.append((name + '/lifecycle', ('life', name, seed)))
        out.append((name + '/pickle_family', ('pickfam', name, tier)))
    return out


def ctor_params(name):
    sig = inspect.signature(zoo.cls(name).__init__)
    return [(p.name, p.default) for p in sig.parameters.values() if p.name != 'self']


def values_for(name, pname, default):
    vals = [('default', default)]
    for i, a in enumerate(ALTERNATIVES.get(pname, [])):
        vals.append(('alt%d' % i, a))
    if not (name == 'LFDA' and pname == 'embedding_type'):
        vals += [('sentinel', Sentinel(pname)), ('ndarray', np.arange(6.0).reshape(2, 3)), ('callable', a_callable),
                 ('int', 3), ('float', 0.375), ('none', None),
                 # NumPy scalars (what a parameter grid built with np.arange / np.linspace hands over)
                 ('np.int64', np.int64(3)), ('np.int32', np.int32(2)), ('np.float64', np.float64(0.375)), ('np.bool_', np.bool_(True))]
    return vals


def same_value(a, b):
    if isinstance(a, np.ndarray) or isinstance(b, np.ndarray):
        return isinstance(a, np.ndarray) and isinstance(b, np.ndarray) and a.dtype == b.dtype and np.array_equal(a, b)
    return type(a) is type(b) and a == b


def run_case(spec):
    warnings.simplefilter('ignore')
    kind, name = spec[0], spec[1]
    C = zoo.cls(name)
    viol, sigs = [], set()
    evals = 0
    if kind == 'pickfam':
        # every documented option value, as configured and with the solver cut before its first step (the model is then the
        # initialisation itself, which may be a VIEW of some intermediate array): after a pickle round trip every output must
        # be the same bit for bit, also when it is asked for one sample / one pair at a time
        for dsn in (('S3u', 'S5') if spec[2] == 'quick' else ('S3u', 'S5', 'S4u', 'S6')):
            ds = data.dataset(dsn)
            base = zoo.cls(name)().get_params()
            for lab, o in zoo.option_configs(name, ds, 'quick'):
                budgets = [{}]
                if 'max_iter' in base:
                    budgets.append({'max_iter': 2 if name == 'LMNN' else 1})
                if name in ('NCA', 'MLKR'):
                    budgets.append({'tol': 1e10})
                for extra in budgets:
                    try:
                        est = zoo.fit(name, ds, **dict(o, **extra))
                    except Exception:
                        continue          # whether fit succeeds is C03's business
                    pk = pickle.loads(pickle.dumps(est))
                    evals += 1
                    X = ds.X
                    bad = []
                    if not np.array_equal(est.transform(X), pk.transform(X)):
                        bad.append('transform(all points)')
                    nb = sum(not np.array_equal(est.transform(X[i:i + 1]), pk.transform(X[i:i + 1])) for i in range(len(X)))
                    if nb:
                        bad.append('transform(one point at a time): %d of %d points' % (nb, len(X)))
                    pr = np.array([[X[i], X[(i * 3 + 1) % len(X)]] for i in range(len(X))])
                    if not np.array_equal(est.pair_distance(pr), pk.pair_distance(pr)):
                        bad.append('pair_distance(batch)')
                    if any(est.pair_distance(pr[i:i + 1])[0] != pk.pair_distance(pr[i:i + 1])[0] for i in range(len(pr))):
                        bad.append('pair_distance(one pair at a time)')
                    if not np.array_equal(est.get_mahalanobis_matrix(), pk.get_mahalanobis_matrix()):
                        bad.append('get_mahalanobis_matrix')
                    sigs.add((name, dsn, lab, tuple(extra.items())))
                    if bad:
                        L = est.components_
                        viol.append(V(name + '.pickle', 'pickle_changes_output', '%s [%s%s on %s] differs after a pickle round trip (components_ is %s)'
                                      % ('; '.join(bad), lab, (', ' + repr(extra)) if extra else '', dsn,
                                         'C-contiguous' if L.flags['C_CONTIGUOUS'] else ('Fortran-ordered' if L.flags['F_CONTIGUOUS'] else 'a strided view')),
                                      [lab] + ['%s=%s' % kv for kv in extra.items()]))
        return dict(evals=evals, sigs=sigs, viol=viol,
                    sample={'estimator': name, 'case': 'pickle round trip over the option product, full and zero-step budgets', 'queries': 'batch and one at a time'})
    if kind == 'params':
        for pname, default in ctor_params(name):
            if isinstance(default, str) and default == 'deprecated':
                continue
            for vk, v in values_for(name, pname, default):
                evals += 2
                tr = [pname, vk]
                try:
                    est = C(**{pname: v})
                except Exception as e:
                    viol.append(V(name + '.__init__', 'constructor_raises', '%s(%s=<%s>) raised %s' % (name, pname, vk, type(e).__name__), tr))
                    continue
                got = est.get_params()
                if pname not in got:
                    viol.append(V(name + '.get_params', 'missing', 'get_params() lacks %s' % pname, tr))
                elif got[pname] is not v:
                    viol.append(V(name + '.__init__', 'not_stored_untouched', '%s(%s=<%s>): get_params()[%r] is %r, not the object '
                                  'passed' % (name, pname, vk, pname, got[pname]), tr))
                # every other parameter keeps its default
                for q, dq in ctor_params(name):
                    if q != pname and not (isinstance(dq, str) and dq == 'deprecated') and not same_value(got.get(q), dq):
                        viol.append(V(name + '.__init__', 'other_param_changed', 'passing %s changed %s to %r' % (pname, q, got.get(q)), tr))
                est2 = C()
                r = est2.set_params(**{pname: v})
                if r is not est2 or est2.get_params()[pname] is not v:
                    viol.append(V(name + '.set_params', 'not_stored_untouched', 'set_params(%s=<%s>) does not store the identical object'
                                  % (pname, vk), tr))
                sigs.add((name, pname, vk))
        # deprecated aliases
        for alias, target, val in ALIASES.get(name, []):
            evals += 1
            with warnings.catch_warnings(record=True) as w:
                warnings.simplefilter('always')
                try:
                    est = C(**{alias: val})
                except Exception as e:
                    viol.append(V(name + '.__init__', 'alias_raises', '%s(%s=%r) raised %s: %s' % (name, alias, val, type(e).__name__, str(e)[:100]), [alias]))
                    continue
            if not any(issubclass(x.category, FutureWarning) for x in w):
                viol.append(V(name + '.__init__', 'alias_no_warning', '%s(%s=...) did not emit a FutureWarning' % (name, alias), [alias]))
            if est.get_params().get(target) != val or type(est.get_params().get(target)) is not type(val):
                viol.append(V(name + '.__init__', 'alias_not_mapped', '%s(%s=%r): %s is %r' % (name, alias, val, target,
                                                                                              est.get_params().get(target)), [alias]))
            sigs.add((name, 'alias', alias))
            # the alias must not stay "live": changing the replacement afterwards and cloning must work and carry the new value
            try:
                other = val * 2 if isinstance(val, int) else (7 if val is None else 0.5)
                est.set_params(**{target: other})
                with warnings.catch_warnings():
                    warnings.simplefilter('ignore')
                    cl = clone(est)
                if cl.get_params().get(target) != other:
                    viol.append(V(name + '.clone', 'alias_overrides_replacement', '%s(%s=%r).set_params(%s=%r) then clone: the clone holds %s=%r'
                                  % (name, alias, val, target, other, target, cl.get_params().get(target)), [alias]))
            except Exception as e:
                viol.append(V(name + '.clone', 'alias_overrides_replacement', '%s(%s=%r).set_params(%s=...) then clone raised %s: %s'
                              % (name, alias, val, target, type(e).__name__, str(e)[:100]), [alias]))
        return dict(evals=evals, sigs=sigs, viol=viol,
                    sample={'estimator': name, 'parameters': [p for p, _ in ctor_params(name)]})

    if kind == 'bfs':
        depth = spec[2]
        plist = [(p, d) for p, d in ctor_params(name) if not (isinstance(d, str) and d == 'deprecated')]
        picks = [plist[0][0], plist[len(plist) // 2][0], plist[-1][0], 'preprocessor']
        evs = []
        for i, p in enumerate(dict.fromkeys(picks)):
            v = [Sentinel('s%d' % i), np.arange(4.0) + i, 0.5 + i, 'alt'][i % 4]
            if name == 'LFDA' and p == 'embedding_type':
                v = 'plain'
            evs.append(('set', p, v))
        evs += [('clone',), ('pickle',)]

        class W(object):
            pass

        def build():
            w = W()
            w.est = C()
            w.model = {p: d for p, d in ctor_params(name)}
            w.unpickled = False
            return w

        def apply(w, ev):
            try:
                if ev[0] == 'set':
                    w.est.set_params(**{ev[1]: ev[2]})
                    w.model[ev[1]] = ev[2]
                    return {'identity': w.est.get_params()[ev[1]] is ev[2]}
                if ev[0] == 'clone':
                    w.est = clone(w.est)
                    w.unpickled = False
                else:
                    w.est = pickle.loads(pickle.dumps(w.est))
                    w.unpickled = True
            except Exception as e:
                return {'exc': e}
            return {}

        def dig(w):
            # parameter VALUES, plus whether the object came out of pickle since it was last (re)constructed: unpickled
            # parameters are equal but not identical to the constructor's literals, and clone compares by identity - merging
            # the two states hid 'pickle -> clone raises' in the first version of this search
            return digest(w.est.get_params(), type(w.est).__name__, w.unpickled)

        def inv(w, ev, out, hist, before):
            v = []
            if out.get('exc') is not None:
                return [V(name + '.' + ev[0], 'raises', '%s raised %s' % (ev[0], type(out['exc']).__name__), [ev[0]])]
            if out.get('identity') is False:
                v.append(V(name + '.set_params', 'not_stored_untouched', 'set_params(%s) did not store the identical object' % ev[1], [ev[1]]))
            got = w.est.get_params()
            for p, val in w.model.items():
                if isinstance(val, str) and val == 'deprecated':
                    continue
                if p not in got or not same_value(got[p], val):
                    v.append(V(name + '.' + ev[0], 'params_diverge', 'after %s, get_params()[%r] = %r but the reference model holds %r'
                               % (ev[0], p, got.get(p), val), [ev[0], p]))
            return v
        s = Search(build, lambda w: evs, apply, dig, inv, depth)
        s.run()
        for x in s.violations:
            if 'site' in x:
                x['detail']['history'] = [repr(e)[:60] for e in x.pop('hist')]
                viol.append(x)
            else:
                viol.append(V(name, x['clause'], x['msg'], ['replay']))
        return dict(evals=s.transitions, sigs={(repr(a)[:80], b) for a, b in s.outcomes}, viol=viol, states=s.states,
                    transitions=s.transitions,
                    sample={'estimator': name, 'events': [repr(e)[:50] for e in evs], 'depth': depth, 'states': s.states,
                            'transitions': s.transitions})

    # ---- lifecycle: unfitted -> NotFittedError; clone + fit; pickle of fitted
    seed = spec[2]
    ds = data.dataset('S3u')
    kindk = zoo.KIND[name]
    Q = data.query_points(ds)[[0, 1, 2, 7, 9]]
    P = np.array([[Q[i], Q[j]] for i in range(5) for j in range(5)])
    t = zoo.TUPLE_SIZE.get(kindk)
    T = np.array([[Q[(i + j) % 5] for j in range(t)] for i in range(5)]) if t else None
    yq = np.array([1, -1, 1, -1, 1])

    def queries(est):
        q = [('transform', (Q,)), ('pair_distance', (P,)), ('pair_score', (P,)), ('score_pairs', (P,)),
             ('get_mahalanobis_matrix', ()), ('get_metric', ())]
        if t:
            q += [('predict', (T,)), ('decision_function', (T,)), ('score', (T, yq) if t == 2 else (T,))]
        if t == 2:
            q += [('calibrate_threshold', (T, yq)), ('set_threshold', (0.5,))]
        return q
    un = zoo.make(name, ds)
    for meth, a in queries(un):
        evals += 1
        try:
            getattr(un, meth)(*a)
            viol.append(V(name + '.' + meth, 'unfitted_accepted', '%s on an unfitted estimator returned normally' % meth, ['unfitted']))
        except NotFittedError:
            sigs.add((name, 'unfitted', meth))
        except Exception as e:
            viol.append(V(name + '.' + meth, 'unfitted_wrong_exception', '%s on an unfitted estimator raised %s, not NotFittedError'
                          % (meth, type(e).__name__), ['unfitted']))
    # a fit that raises after input preparation (n_components out of range / unknown option value) leaves the estimator not fitted
    bad_over = ({'n_components': ds.d + 3} if 'n_components' in un.get_params() else
                ({'prior': 'no_such_prior'} if 'prior' in un.get_params() else ({'init': 'no_such_init'} if 'init' in un.get_params() else None)))
    if bad_over is not None:
        fe = zoo.make(name, ds, **bad_over)
        try:
            fe.fit(*zoo.train_args(name, ds))
            failed = False
        except Exception:
            failed = True
        if failed and not hasattr(fe, 'components_'):
            for meth, a in queries(fe):
                evals += 1
                # (the threshold methods live in the shared pairs mixin: one call site for the three pairs learners)
                fsite = ('_PairsClassifierMixin.' + meth) if (name in zoo.PAIRS and meth in ('predict', 'set_threshold')) else (name + '.' + meth)
                try:
                    getattr(fe, meth)(*a)
                    viol.append(V(fsite, 'unfitted_accepted', '%s after a FAILED fit returned normally [%s]' % (meth, name), ['failed_fit']))
                except NotFittedError:
                    sigs.add((name, 'failed_fit', meth))
                except Exception as e:
                    viol.append(V(fsite, 'unfitted_wrong_exception', '%s after a failed fit (estimator still not fitted) raised %s, not '
                                  'NotFittedError [%s]' % (meth, type(e).__name__, name), ['failed_fit']))
    # random_state given as a RandomState instance: a clone must behave identically when fitted (independent copy of the stream)
    if 'random_state' in un.get_params():
        over_r = {'random_state': np.random.RandomState(7)}
        for key in ('prior', 'init'):
            if key in un.get_params() and name not in ('LMNN', 'NCA', 'MLKR'):
                over_r[key] = 'random'
        if name in ('LMNN', 'NCA', 'MLKR'):
            over_r['init'] = 'random'
        e1 = zoo.make(name, ds, **over_r)
        c1 = clone(e1)
        c2 = clone(e1)
        c1.fit(*zoo.train_args(name, ds))
        c2.fit(*zoo.train_args(name, ds))
        e1.fit(*zoo.train_args(name, ds))
        evals += 3
        sigs.add((name, 'random_state_instance'))
        if not (np.array_equal(c1.components_, c2.components_) and np.array_equal(c1.components_, e1.components_)):
            viol.append(V(name + '.clone', 'clone_behaves_differently', 'random_state given as a RandomState instance: two clones and the original, '
                          'fitted one after the other on the same data, give different models (the clones share the random stream)', ['random_state_instance']))
    cfgs = [('base', {})] + [(lab, o) for lab, o in zoo.option_configs(name, ds, 'quick')
                             if any(isinstance(v, np.ndarray) for v in o.values())][:2]
    if name == 'LFDA':
        cfgs = cfgs + [('k=10 (larger than n_features)', {'k': 10}), ('k=n_features', {'k': ds.d})]
    for clab, over in cfgs:
        pristine = copy.deepcopy(over)
        est = zoo.make(name, ds, **over)
        c0 = clone(est)
        before = dict(est.get_params())
        est.fit(*zoo.train_args(name, ds))
        after = est.get_params()
        for k_ in before:
            if after[k_] is not before[k_] and not same_value(after[k_], before[k_]):
                viol.append(V(name + '.fit', 'param_modified_by_fit', 'fit replaced the value of the constructor parameter %s (%r -> %r) [%s]'
                              % (k_, before[k_], after[k_], clab), [k_, clab]))
        c1 = clone(est)                      # cloned AFTER the fit: must still carry the original values
        for k, v in pristine.items():
            if not same_value(est.get_params()[k], v):
                viol.append(V(name + '.fit', 'param_modified_by_fit', 'the value stored for %s was modified by fit [%s]' % (k, clab), [k, clab]))
        for cl, when in ((c0, 'before'), (c1, 'after')):
            evals += 1
            if hasattr(cl, 'components_'):
                viol.append(V(name + '.clone', 'clone_is_fitted', 'clone carries fitted state', [clab]))
            cl.fit(*zoo.train_args(name, ds))
            if not np.array_equal(cl.components_, est.components_) or getattr(cl, 'threshold_', None) != getattr(est, 'threshold_', None):
                viol.append(V(name + '.clone', 'clone_behaves_differently', 'a clone taken %s the fit gives another model when fitted on the '
                              'same data [%s]' % (when, clab), [clab, when]))
            sigs.add((name, 'clone_fit', clab, when))
        pk = pickle.loads(pickle.dumps(est))
        evals += 1
        for meth, a in queries(est):
            if meth in ('calibrate_threshold', 'set_threshold', 'get_metric'):
                continue
            r1, r2 = getattr(est, meth)(*a), getattr(pk, meth)(*a)
            if not np.array_equal(np.asarray(r1), np.asarray(r2)):
                viol.append(V(name + '.pickle', 'pickle_changes_output', '%s differs after a pickle round trip [%s]' % (meth, clab), [clab, meth]))
        f1, f2 = est.get_metric(), pk.get_metric()
        if any(f1(p[0], p[1]) != f2(p[0], p[1]) for p in P):
            viol.append(V(name + '.pickle', 'pickle_changes_output', 'get_metric() differs after a pickle round trip', [clab]))
        if digest(est.get_params()) != digest(pk.get_params()):
            viol.append(V(name + '.pickle', 'pickle_changes_params', 'get_params() differs after a pickle round trip', [clab]))
        sigs.add((name, 'pickle', clab))
    # set_params on a FITTED estimator, then clone: estimator and clone must behave identically when fitted
    A = ds.X.copy()
    B = ds.X * np.array([1.0, 2.0, 0.5]) + 0.25
    est = zoo.make(name, ds, preprocessor=A).fit(*zoo.train_args(name, ds, 'index'))
    est.get_mahalanobis_matrix()               # the first model is looked at before the parameters change
    est.transform(np.arange(3))
    est.set_params(preprocessor=B)
    # ... and, before any refit, a pickle / deepcopy of this fitted estimator answers index queries exactly as the original does
    # (whatever the original does with the fitted indexer and the new parameter, the copy is a copy of that state)
    import copy as _copy
    for how, dup in (('pickle round trip', lambda e: pickle.loads(pickle.dumps(e))), ('copy.deepcopy', _copy.deepcopy)):
        try:
            ref_out = est.transform(np.arange(4))
        except Exception as e:
            ref_out = type(e).__name__
        try:
            pk = dup(est)
            pk_out = pk.transform(np.arange(4))
            pk_pre = pk.get_params()['preprocessor']
        except Exception as e:
            pk_out, pk_pre = type(e).__name__ + ': ' + str(e)[:80], B
        evals += 1
        sigs.add((name, 'set_params_on_fitted_then_' + how))
        same = (np.array_equal(ref_out, pk_out) if isinstance(ref_out, np.ndarray) and isinstance(pk_out, np.ndarray)
                else (isinstance(ref_out, str) and isinstance(pk_out, str) and pk_out.startswith(ref_out)))
        if not same:
            viol.append(V(name + '.pickle', 'pickle_changes_output', 'fit on indices (preprocessor A), set_params(preprocessor=B), %s: transform on '
                          'indices gives %s on the copy and %s on the original' % (how, 'another embedding' if isinstance(pk_out, np.ndarray) else pk_out,
                                                                                  'an embedding' if isinstance(ref_out, np.ndarray) else ref_out),
                          ['preprocessor', 'fitted', 'set_params_without_refit']))
        if not np.array_equal(np.asarray(pk_pre), B):
            viol.append(V(name + '.pickle', 'pickle_changes_params', 'the preprocessor parameter set on a fitted estimator is lost by a %s' % how,
                          ['preprocessor', 'fitted']))
    cl = clone(est)
    est.fit(*zoo.train_args(name, ds, 'index'))
    cl.fit(*zoo.train_args(name, ds, 'index'))
    evals += 1
    sigs.add((name, 'set_params_on_fitted_then_clone'))
    if est.get_params()['preprocessor'] is not B:
        viol.append(V(name + '.set_params', 'not_stored_untouched', 'set_params(preprocessor=B) on a fitted estimator', ['preprocessor']))
    if not np.array_equal(est.components_, cl.components_):
        viol.append(V(name + '.clone', 'clone_behaves_differently', 'after set_params(preprocessor=B) on a fitted estimator, the '
                      'estimator and its clone give different models when fitted on the same indices', ['preprocessor', 'fitted']))
    elif not (np.array_equal(est.get_mahalanobis_matrix(), cl.get_mahalanobis_matrix())
              and np.array_equal(est.transform(np.arange(4)), cl.transform(np.arange(4)))):
        viol.append(V(name + '.clone', 'clone_behaves_differently', 'after fit / queries / set_params(preprocessor=B) / fit, the estimator and its '
                      'clone (same model) return different matrices or embeddings', ['preprocessor', 'fitted', 'queried_between_fits']))
    return dict(evals=evals, sigs=sigs, viol=viol,
                sample={'estimator': name, 'configurations': [c for c, _ in cfgs], 'unfitted_methods': [m for m, _ in queries(un)]})
