"""C12 - LSML descends its convex objective from the prior to a stationary point (DESIGN.md section 5, C12).

E4: every iteration budget max_iter = 1..K of the deterministic solver is one reachable solver state; the invariants
(SPD, objective <= objective at the prior and non-increasing in the budget) are evaluated in each, the stationarity
clause in every state reached with n_iter_ < max_iter, for every configuration of the alphabet.
"""
import warnings

import numpy as np

from mc import env  # noqa: F401
from mc import data, zoo
from mc.refmodel import lsml_ref, priors
import metric_learn as ml

PID = 'C12'
LEVEL = 'model_checking'
RULE = ('LSML x prior {identity, covariance, random, SPD array in C and in Fortran order} x weights {None, constant 5, ramp 1..n, ramp as list, ramp x 64} x '
        'tol {1e-2, 1e-3, 1e-4} x quadruplet sets {half of the constraints violated under the identity, all satisfied} x datasets; '
        'for each configuration the budgets max_iter = 1..K (K = 8 quick / 25 thorough) and an unbounded run; LSML_Supervised x '
        'prior x weights x seeds.  state = (configuration, budget); distinct_nontrivial = states whose matrix differs from the prior')
ASSUMPTIONS = ['Reference objective / analytic gradient in mc/refmodel/lsml_ref.py (plain loops over the documented formula); '
               'priors rebuilt independently (mc/refmodel/priors.py).',
               'tol is restricted to >= 1e-4 so that floating-point resolution cannot stop the step-size search before the '
               'gradient criterion does; a stop with n_iter_ < max_iter is judged with 1.001 x tol.']
BOUNDS = {'quick': dict(K=8, datasets=['S2', 'S3u', 'S5']), 'thorough': dict(K=25, datasets=list(data.THOROUGH))}


def illcond(d):
    """SPD array with condition number 1e10 (eigen-directions from the fixed SPD matrix, eigenvalues log-spaced 1e-5..1e5)."""
    _, Q = np.linalg.eigh(data.spd(d))
    return (Q * np.logspace(-5, 5, d)).dot(Q.T)


def V(site, clause, msg, triggers=(), **detail):
    return dict(site=site, clause=clause, msg=msg, triggers=list(triggers), detail=detail)


WEIGHTS = ['none', 'const5', 'ramp', 'ramp_list', 'ramp64']
# (an SPD array with condition number 1e10 was tried as a further option: on the unchanged tree LSML's fixed step grid and the
# graphical lasso both stop being reliable there, so it cannot separate a defect from solver limits and is not part of the alphabet)
PRIORS = ['identity', 'covariance', 'random', 'array', 'array_F']      # array_F: the same SPD array, Fortran-ordered


def make_weights(kind, n):
    if kind == 'none':
        return None
    if kind == 'const5':
        return np.full(n, 5.0)
    r = np.arange(1.0, n + 1)
    if kind == 'ramp':
        return r
    if kind == 'ramp_list':
        return r.tolist()
    return r * 64.0


def cases(tier, seed):
    b = BOUNDS[tier]
    out = []
    for dsn in b['datasets']:
        for pr in PRIORS:
            for wk in WEIGHTS:
                for qs in ('mixed', 'sat'):
                    out.append(('LSML/%s/%s/%s/%s' % (dsn, pr, wk, qs), ('lsml', dsn, pr, wk, qs, b['K'], seed)))
            out.append(('LSML_Supervised/%s/%s' % (dsn, pr), ('sup', dsn, pr, b['K'], seed)))
    # many features in units of ~60 with the prior that follows them: |log det M| is beyond the range of exp()
    out.append(('LSML/100_features/covariance', ('highdim', 'H100', 'covariance', 'none', 'mixed', 0, seed)))
    # SPD array priors with ONE nearly irrelevant direction (eigenvalue 1e-6 / 1e-10 / 1e-12 next to O(1) ones) and quadruplets
    # that all hold under the prior: the only clause judged is "the prior is returned" (robust: no step of the grid can improve
    # on the minimiser, whatever rounding does to the gradient norm)
    for dsn in b['datasets']:
        out.append(('LSML/%s/array_one_small_direction/sat' % dsn, ('illsat', dsn, seed)))
    return out


def cost(spec):
    return 30 if spec[0] == "highdim" else (1 if spec[0] == "illsat" else (3 if spec[2] != "identity" else 2))


def judge(site, M, M0, M0inv, vab, vcd, wn, tol, n_iter, max_iter, f_prior, tr, viol):
    d = M.shape[0]
    lam = np.linalg.eigvalsh((M + M.T) / 2)
    if not np.allclose(M, M.T, rtol=1e-10, atol=1e-12 * np.abs(M).max()) or lam.min() <= 0:
        viol.append(V(site, 'not_spd', 'learned matrix is not symmetric positive definite (lambda_min = %.3g)' % lam.min(), tr))
        return None
    f = lsml_ref.objective(M, M0inv, vab, vcd, wn)
    if not f <= f_prior + 1e-9 * (1 + abs(f_prior)):
        viol.append(V(site, 'objective_above_prior', 'objective %.10g is larger than at the prior (%.10g) [max_iter=%s]' % (f, f_prior, max_iter), tr))
    if n_iter < max_iter and tol is not None:
        g = np.linalg.norm(lsml_ref.gradient(M, M0inv, vab, vcd, wn))
        if not g <= 1.001 * tol and lsml_ref.min_margin(M, vab, vcd) > 1e-9:
            viol.append(V(site, 'not_stationary', 'solver stopped after %d < %d iterations with gradient norm %.4g of the documented objective '
                          '(tol = %g)' % (n_iter, max_iter, g, tol), tr, gradient_norm=g))
        return f, g
    return f, None


def run_case(spec):
    warnings.simplefilter('ignore')
    viol, sigs = [], set()
    evals = states = trans = 0
    head = 0.0
    if spec[0] == 'highdim':
        rs = np.random.RandomState(12100)
        d, n = 100, 420
        X = np.round(rs.randn(n, d) * 60 * 4) / 4
        I = rs.randint(n, size=(160, 4))
        I = I[(I[:, 0] != I[:, 1]) & (I[:, 2] != I[:, 3])]
        Q = X[I]
        M0, M0inv = priors.prior_matrix('covariance', Q, d, seed=1)
        vab, vcd = Q[:, 0] - Q[:, 1], Q[:, 2] - Q[:, 3]
        # orient every constraint so that it holds with a clear margin under the prior, then violate every third one
        dab = np.einsum('ij,jk,ik->i', vab, M0, vab)
        dcd = np.einsum('ij,jk,ik->i', vcd, M0, vcd)
        swap = dab > dcd
        Q[swap] = Q[swap][:, [2, 3, 0, 1]]
        Q[::3] = Q[::3][:, [2, 3, 0, 1]]
        vab, vcd = Q[:, 0] - Q[:, 1], Q[:, 2] - Q[:, 3]
        wn = np.ones(len(Q)) / len(Q)
        f_prior = lsml_ref.objective(M0, M0inv, vab, vcd, wn)
        site, tr = 'LSML.fit', ['covariance', '100_features', 'logdet=%.0f' % np.linalg.slogdet(M0)[1]]
        for mi, tol in ((1, 1e-2), (3, 1e-2), (3000, 1e-2)):
            est = ml.LSML(prior='covariance', tol=tol, max_iter=mi)
            try:
                est.fit(Q.copy())
            except Exception as e:
                viol.append(V(site, 'raises', 'fit raised %s: %s' % (type(e).__name__, str(e)[:120]), tr))
                break
            evals += 1
            states += 1
            trans += 1
            r = judge(site, est.get_mahalanobis_matrix(), M0, M0inv, vab, vcd, wn, tol, est.n_iter_, mi, f_prior, tr + ['max_iter=%d' % mi], viol)
            if r is None:
                break
            if r[1] is not None:
                head = max(head, r[1] / (1.001 * tol))
            sigs.add(('highdim', mi, est.n_iter_))
        return dict(evals=evals, sigs=sigs, viol=viol, states=states, transitions=trans, headroom={'gradient_norm_over_tol': head},
                    sample={'learner': 'LSML', 'features': d, 'points': n, 'quadruplets': len(Q), 'prior': 'covariance', 'budgets': [1, 3, 3000]})
    if spec[0] == 'illsat':
        _, dsn, seed = spec
        ds = data.dataset('R', seed) if dsn == 'R' else data.dataset(dsn)
        d = ds.d
        _, P = np.linalg.eigh(data.spd(d))
        site = 'LSML.fit'
        for small in (1e-6, 1e-10, 1e-12):
            lam = np.concatenate([[small], np.linspace(0.5, 2.0, d - 1)])
            M0 = (P * lam).dot(P.T)
            M0 = (M0 + M0.T) / 2
            Q = ds.quads.copy()
            vab, vcd = Q[:, 0] - Q[:, 1], Q[:, 2] - Q[:, 3]
            dab = np.einsum('ij,jk,ik->i', vab, M0, vab)
            dcd = np.einsum('ij,jk,ik->i', vcd, M0, vcd)
            sw = dab > dcd
            Q[sw] = Q[sw][:, [2, 3, 0, 1]]
            lo, hi = np.minimum(dab, dcd), np.maximum(dab, dcd)
            Q = Q[lo * (1 + 1e-6) < hi]                 # clear margin only
            for wk in ('none', 'ramp'):
                w = make_weights(wk, len(Q))
                tr = ['array_one_small_direction', 'eig=%g' % small, wk, 'sat']
                for order in ('C', 'F'):
                    est = ml.LSML(prior=np.array(M0, order=order), tol=1e-3, max_iter=50)
                    try:
                        est.fit(Q.copy(), weights=w)
                    except Exception as e:
                        viol.append(V(site, 'raises', 'fit raised %s: %s' % (type(e).__name__, str(e)[:120]), tr))
                        continue
                    evals += 1
                    states += 1
                    trans += 1
                    M = est.get_mahalanobis_matrix()
                    dev = np.abs(M - M0).max() / np.abs(M0).max()
                    head = max(head, dev / 1e-6)
                    if not dev <= 1e-6:
                        viol.append(V(site, 'prior_not_returned', 'every constraint holds under the SPD prior (condition number %.1e) but the '
                                      'learned matrix differs from it (relative %.3g, n_iter_=%d)' % (lam.max() / small, dev, est.n_iter_), tr))
                    sigs.add(('illsat', dsn, small, wk, order, est.n_iter_))
        return dict(evals=evals, sigs=sigs, viol=viol, states=states, transitions=trans, headroom={'prior_deviation_over_1e-6': head},
                    sample={'learner': 'LSML', 'dataset': dsn, 'prior': 'SPD array, one eigenvalue in {1e-6, 1e-10, 1e-12}', 'quadruplets': 'sat'})
    if spec[0] == 'lsml':
        _, dsn, pr, wk, qs, K, seed = spec
        ds = data.dataset('R', seed) if dsn == 'R' else data.dataset(dsn)
        d = ds.d
        Q = (ds.quads if qs == 'mixed' else ds.quads_sat).copy()
        prv = data.spd(d) if pr == 'array' else (np.asfortranarray(data.spd(d)) if pr == 'array_F' else pr)
        M0, M0inv = priors.prior_matrix(prv, Q, d, seed=1)
        vab, vcd = Q[:, 0] - Q[:, 1], Q[:, 2] - Q[:, 3]
        w = make_weights(wk, len(Q))
        wn = np.ones(len(Q)) / len(Q) if w is None else np.asarray(w, dtype=float) / np.sum(w)
        f_prior = lsml_ref.objective(M0, M0inv, vab, vcd, wn)
        all_sat = all(a.dot(M0).dot(a) * (1 + 1e-9) < c.dot(M0).dot(c) for a, c in zip(vab, vcd))
        tr = [pr, wk, qs]
        site = 'LSML.fit'
        for tol in (1e-2, 1e-3, 1e-4):
            prev_f = None
            budgets = list(range(1, K + 1)) + [1000]
            for mi in budgets:
                w_arg = (list(w) if isinstance(w, list) else (None if w is None else w.copy()))
                w_before = None if w is None else np.array(w, dtype=float)
                est = ml.LSML(prior=prv.copy() if isinstance(prv, np.ndarray) else prv, tol=tol, max_iter=mi, random_state=1)
                try:
                    est.fit(Q.copy(), weights=w_arg)
                except Exception as e:
                    viol.append(V(site, 'raises', 'fit raised %s: %s' % (type(e).__name__, str(e)[:120]), tr))
                    break
                evals += 1
                states += 1
                trans += 1
                if w is not None and not np.array_equal(np.asarray(w_arg, dtype=float), w_before):
                    viol.append(V(site, 'mutates_weights', 'the weights given by the caller were modified', tr))
                M = est.get_mahalanobis_matrix()
                r = judge(site, M, M0, M0inv, vab, vcd, wn, tol, est.n_iter_, mi, f_prior, tr + ['tol=%g' % tol], viol)
                if r is None:
                    break
                f, g = r
                if g is not None:
                    head = max(head, g / (1.001 * tol))
                if prev_f is not None and not f <= prev_f + 1e-9 * (1 + abs(prev_f)):
                    viol.append(V(site, 'objective_increases_with_budget', 'objective rises from %.10g to %.10g when max_iter goes to %d'
                                  % (prev_f, f, mi), tr))
                prev_f = f
                if all_sat:
                    if np.abs(M - M0).max() > 1e-9 * np.abs(M0).max():
                        viol.append(V(site, 'prior_not_returned', 'every constraint holds under the prior but the learned matrix differs from it '
                                      '(%.3g)' % np.abs(M - M0).max(), tr))
                elif np.abs(M - M0).max() > 1e-6 * np.abs(M0).max():
                    sigs.add((dsn, pr, wk, qs, tol, mi))
                if est.n_iter_ < mi and mi < 1000:
                    break          # later budgets reach the same state
        try:
            # weight scale invariance: ramp vs ramp x 64 (exact scaling) and const vs none
            if wk == 'ramp':
                a = ml.LSML(prior=prv, tol=1e-3, random_state=1).fit(Q.copy(), weights=make_weights('ramp', len(Q)))
                b = ml.LSML(prior=prv, tol=1e-3, random_state=1).fit(Q.copy(), weights=make_weights('ramp64', len(Q)))
                c = ml.LSML(prior=prv, tol=1e-3, random_state=1).fit(Q.copy(), weights=make_weights('ramp', len(Q)) * 3.0)
                evals += 3
                if not np.array_equal(a.components_, b.components_):
                    viol.append(V(site, 'weight_scale', 'multiplying all weights by 64 changes the result', tr))
                if np.abs(a.get_mahalanobis_matrix() - c.get_mahalanobis_matrix()).max() > 1e-9:
                    viol.append(V(site, 'weight_scale', 'multiplying all weights by 3 changes the result', tr))
            if wk == 'const5':
                a = ml.LSML(prior=prv, tol=1e-3, random_state=1).fit(Q.copy())
                b = ml.LSML(prior=prv, tol=1e-3, random_state=1).fit(Q.copy(), weights=make_weights('const5', len(Q)))
                evals += 2
                if np.abs(a.get_mahalanobis_matrix() - b.get_mahalanobis_matrix()).max() > 1e-9:
                    viol.append(V(site, 'weight_scale', 'constant weights differ from no weights', tr))
        except Exception as e:
            viol.append(V(site, 'raises', 'fit raised %s: %s' % (type(e).__name__, str(e)[:120]), tr))
        return dict(evals=evals, sigs=sigs, viol=viol, states=states, transitions=trans, headroom={'gradient_norm_over_tol': head},
                    sample={'learner': 'LSML', 'dataset': dsn, 'prior': pr, 'weights': wk, 'quadruplets': qs, 'budgets': '1..%d, 1000' % K,
                            'tols': [1e-2, 1e-3, 1e-4]})
    # ---------------- LSML_Supervised: same invariants on the quadruplets it derives
    _, dsn, pr, K, seed = spec
    ds = data.dataset('R', seed) if dsn == 'R' else data.dataset(dsn)
    d = ds.d
    prv = data.spd(d) if pr == 'array' else (np.asfortranarray(data.spd(d)) if pr == 'array_F' else pr)
    from checks.c08_supervised import Capture
    for s in (0, 1):
        for wk in ('none', 'ramp'):
            nc = 12
            w = make_weights(wk, nc)
            for mi in (1, 2, 4, 1000):
                est = ml.LSML_Supervised(prior=prv, n_constraints=nc, weights=w, tol=1e-3, max_iter=mi, random_state=s)
                with Capture(ml.lsml._BaseLSML) as cap:
                    try:
                        est.fit(ds.X.copy(), ds.y.copy())
                    except Exception as e:
                        viol.append(V('LSML_Supervised.fit', 'raises', '%s: %s' % (type(e).__name__, str(e)[:100]), [pr, wk]))
                        break
                evals += 1
                states += 1
                trans += 1
                Q = cap.seen[0][0]
                if w is not None and len(w) != len(Q):
                    break
                vab, vcd = Q[:, 0] - Q[:, 1], Q[:, 2] - Q[:, 3]
                M0, M0inv = priors.prior_matrix(prv, Q, d, seed=s)
                wn = np.ones(len(Q)) / len(Q) if w is None else w / w.sum()
                f_prior = lsml_ref.objective(M0, M0inv, vab, vcd, wn)
                r = judge('LSML_Supervised.fit', est.get_mahalanobis_matrix(), M0, M0inv, vab, vcd, wn, 1e-3, est.n_iter_, mi, f_prior,
                          [pr, wk, 'supervised'], viol)
                if r and r[1] is not None:
                    head = max(head, r[1] / 1.001e-3)
                sigs.add(('sup', dsn, pr, wk, s, mi))
                if w is not None and not np.array_equal(w, make_weights(wk, nc)):
                    viol.append(V('LSML_Supervised.fit', 'mutates_weights', 'the weights parameter was modified', [pr, wk]))
    return dict(evals=evals, sigs=sigs, viol=viol, states=states, transitions=trans, headroom={'gradient_norm_over_tol': head},
                sample={'learner': 'LSML_Supervised', 'dataset': dsn, 'prior': pr})
