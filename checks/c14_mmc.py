"""C14 - MMC returns a PSD matrix that satisfies its similarity budget (DESIGN.md section 5, C14).

E4: every iteration budget max_iter = 1..K of the deterministic projected-gradient scheme is one reachable solver
state; invariants in each: PSD, similar-pair budget (1% tolerance) relative to the harness's own initial matrix,
dissimilar-pair objective non-decreasing in the budget, budget 1 == independent alternating projection of the
documented initial matrix.  Diagonal variant: diagonal, non-negative, finite - or ValueError.
"""
import warnings

import numpy as np

from mc import env  # noqa: F401
from mc import data, zoo
from mc.refmodel import priors
import metric_learn as ml

PID = 'C14'
LEVEL = 'model_checking'
RULE = ('MMC x init {identity, covariance, random, SPD array (C order), the same array in Fortran order} x budgets max_iter = 1..K '
        '(K = 8 quick / 30 thorough) x tol {1e-3, 1e-6} x datasets, each state also reached by a second fit of the same object; diagonal=True x '
        'diagonal_c {0.5, 1, 10} x init x budgets; MMC_Supervised x init x seeds; 64 (quick) / 400 (thorough) random pair problems with default options and max_iter = 60; state = (configuration, budget); '
        'non-trivial = learned matrix differs from the initial matrix')
ASSUMPTIONS = ['Budget t = (sum over similar pairs of d^2 under the initial matrix) / 100, with the initial matrix rebuilt '
               'independently by the harness; tolerance factor 1.0101 (the algorithm stops projecting at relative error 0.01).',
               'The reference alternating projection uses the documented stop rule; a state whose stop margin is within 1e-9 of '
               'the rule is counted ambiguous and not compared.']
BOUNDS = {'quick': dict(K=8, datasets=['S2', 'S3u', 'S5']), 'thorough': dict(K=30, datasets=list(data.THOROUGH))}
INITS = ['identity', 'covariance', 'random', 'array', 'array_F']


def V(site, clause, msg, triggers=(), **detail):
    return dict(site=site, clause=clause, msg=msg, triggers=list(triggers), detail=detail)


def random_problem(k):
    """k-th member of a fixed family of small random pair problems (arbitrary pair labels, anisotropic features)."""
    rng = np.random.RandomState(14000 + k)
    n = rng.randint(8, 30)
    d = rng.randint(2, 5)
    X = np.round(rng.randn(n, d) * rng.uniform(0.5, 5, size=d) * 64) / 64
    idx = rng.randint(n, size=(rng.randint(10, 50), 2))
    idx = idx[idx[:, 0] != idx[:, 1]]
    y = np.where(rng.rand(len(idx)) < 0.5, 1, -1)
    y[0], y[1] = 1, -1
    P = X[idx]
    keep = np.sqrt(((P[:, 0] - P[:, 1]) ** 2).sum(1)) > 2.0 ** -4          # no collapsed pairs
    return P[keep], y[keep]


def cases(tier, seed):
    b = BOUNDS[tier]
    out = []
    nrand = 64 if tier == 'quick' else 400
    for k in range(0, nrand, 4):
        out.append(('MMC/random_problems/%d-%d' % (k, k + 3), ('rand', 'random', 'identity', list(range(k, k + 4)), seed)))
    for dsn in b['datasets']:
        for ini in INITS:
            out.append(('MMC/%s/%s/full' % (dsn, ini), ('full', dsn, ini, b['K'], seed)))
            if ini == 'array':
                out.append(('MMC/%s/array_float32/full' % dsn, ('f32', dsn, ini, b['K'], seed)))
            if ini == 'identity' and dsn != 'R':
                out.append(('MMC/%s*2^-12/identity/full' % dsn, ('full', dsn + '*2^-12', ini, b['K'], seed)))
                out.append(('MMC_Supervised/%s*2^-12/identity' % dsn, ('sup', dsn + '*2^-12', ini, b['K'], seed)))
            if ini != 'array_F':
                out.append(('MMC/%s/%s/diagonal' % (dsn, ini), ('diag', dsn, ini, b['K'], seed)))
                out.append(('MMC_Supervised/%s/%s' % (dsn, ini), ('sup', dsn, ini, b['K'], seed)))
    return out


def cost(spec):
    return 9 if spec[0] == 'rand' else (5 if spec[0] == 'full' else 2)


def init_value(ini, d):
    if ini == 'array':
        return data.spd(d)
    if ini == 'array_F':
        return np.asfortranarray(data.spd(d) + 0.0)
    return ini


def fD(neg_diff, A):
    q = np.einsum('ij,jk,ik->i', neg_diff, A, neg_diff)
    return float(np.log(np.sum(np.sqrt(np.maximum(q, 0))) + 1e-6))


def reference_projection(A0, W, t, max_proj=10000):
    """Alternating projection onto {sum_S d^2 <= t} and the PSD cone from A0, documented stop rule (relative error < 0.01)."""
    A = A0.copy()
    w = W.ravel()
    wn = np.linalg.norm(w)
    margin = np.inf
    reference_projection.turns = 0
    for _ in range(max_proj):
        reference_projection.turns += 1
        x = A.ravel()
        if w.dot(x) > t:
            x = x + (t / wn - (w / wn).dot(x)) * (w / wn)
            A = x.reshape(A.shape)
        l, U = np.linalg.eigh((A + A.T) / 2)
        A = (U * np.maximum(l, 0)).dot(U.T)
        err = (w.dot(A.ravel()) - t) / t
        margin = min(margin, abs(err - 0.01))
        if err < 0.01:
            return A, margin
    return A, margin


def judge_full(site, M, A0, pos_diff, neg_diff, tr, viol, stats):
    d = M.shape[0]
    if not np.isfinite(M).all():
        viol.append(V(site, 'not_finite', 'learned matrix contains NaN / inf', tr))
        return None
    lam = np.linalg.eigvalsh((M + M.T) / 2)
    if lam.min() < -1e-10 * max(np.abs(M).max(), 1e-300):
        viol.append(V(site, 'not_psd', 'learned matrix has eigenvalue %.3g' % lam.min(), tr))
    t = np.einsum('ij,jk,ik->', pos_diff, A0, pos_diff) / 100.0
    s = np.einsum('ij,jk,ik->', pos_diff, M, pos_diff)
    stats['worst_budget_ratio'] = max(stats['worst_budget_ratio'], s / t)
    if s > 1.0101 * t:
        viol.append(V(site, 'budget_exceeded', 'sum of squared learned distances over the similar pairs is %.6g = %.4f x the budget '
                      '(one hundredth of its value under the initial matrix)' % (s, s / t), tr, ratio=s / t))
    return fD(neg_diff, M)


def run_case(spec):
    warnings.simplefilter('ignore')
    kind, dsn, ini, K, seed = spec
    if kind == 'rand':
        # default options, a long budget: later projections may fail to converge and must then be discarded by the solver
        viol, sigs = [], set()
        stats = {'worst_budget_ratio': 0.0, 'worst_projection_residual': 0.0}
        evals = 0
        for k in K:
            P, y = random_problem(k)
            if (y == 1).sum() < 1 or (y == -1).sum() < 1:
                continue
            d = P.shape[2]
            pos_diff = P[y == 1][:, 0] - P[y == 1][:, 1]
            neg_diff = P[y == -1][:, 0] - P[y == -1][:, 1]
            W = np.einsum('ij,ik->jk', pos_diff, pos_diff)
            t = W.ravel().dot(np.eye(d).ravel()) / 100.0
            R, _ = reference_projection(np.eye(d), W, t)
            if (W.ravel().dot(R.ravel()) - t) / t >= 0.01:
                stats['skipped_first_projection_does_not_converge'] = stats.get('skipped_first_projection_does_not_converge', 0) + 1
                continue          # outside the property's domain ("max_proj large enough for one projection to converge")
            for mi in (60,):
                est = ml.MMC(max_iter=mi)
                try:
                    est.fit(P.copy(), y.copy())
                except Exception as e:
                    viol.append(V('MMC.fit', 'raises', 'random problem %d: fit raised %s: %s' % (k, type(e).__name__, str(e)[:100]), ['random_problem']))
                    continue
                evals += 1
                g = judge_full('MMC.fit', est.get_mahalanobis_matrix(), np.eye(d), pos_diff, neg_diff, ['random_problem=%d' % k, 'max_iter=%d' % mi], viol, stats)
                sigs.add(('rand', k, est.n_iter_, round(float(g), 4) if g is not None else None))
        return dict(evals=evals, sigs=sigs, viol=viol, states=evals, transitions=evals,
                    stats={k_: v for k_, v in stats.items() if not k_.startswith('worst_')},
                    headroom={k_: v for k_, v in stats.items() if k_.startswith('worst_')},
                    sample={'learner': 'MMC', 'family': 'random pair problems %s' % K, 'options': 'defaults, max_iter=60'})
    if dsn.endswith('*2^-12'):          # the same data in units 4096 times larger (coordinates ~1e-3): the budget is relative
        ds = data.scaled(data.dataset(dsn.split('*')[0]), 2.0 ** -12)
    else:
        ds = data.dataset('R', seed) if dsn == 'R' else data.dataset(dsn)
    d = ds.d
    viol, sigs = [], set()
    evals = states = trans = amb = 0
    stats = {'worst_budget_ratio': 0.0, 'worst_projection_residual': 0.0}
    P, y = ds.pairs.copy(), ds.ypairs.copy()
    iv = init_value(ini, d)
    pristine = iv.copy() if isinstance(iv, np.ndarray) else iv
    if kind in ('full', 'diag', 'f32'):
        A0, _ = priors.prior_matrix(np.array(pristine) if isinstance(pristine, np.ndarray) else pristine, P, d, seed=1)
        pos_diff = P[y == 1][:, 0] - P[y == 1][:, 1]
        neg_diff = P[y == -1][:, 0] - P[y == -1][:, 1]
    if kind == 'f32':
        # the SPD array option in single precision: the iterations start from it all the same (judged with single-precision
        # tolerances, and against the run that starts from the double-precision copy of the same numbers)
        site = 'MMC.fit'
        tr = ['init=array_float32']
        A0 = np.array(pristine, dtype=float)
        assert np.array_equal(A0.astype(np.float32).astype(float), A0)
        pos_diff = P[y == 1][:, 0] - P[y == 1][:, 1]
        neg_diff = P[y == -1][:, 0] - P[y == -1][:, 1]
        W = np.einsum('ij,ik->jk', pos_diff, pos_diff)
        t = W.ravel().dot(A0.ravel()) / 100.0
        R0, _ = reference_projection(A0, W, t)
        if (W.ravel().dot(R0.ravel()) - t) / t >= 0.01:
            return dict(evals=0, sigs=[], viol=[], states=0, transitions=0, stats={'skipped_first_projection_does_not_converge': 1})
        for mi in (1, 2, 5, K):
            i32 = A0.astype(np.float32)
            try:
                e32 = ml.MMC(init=i32, max_iter=mi, random_state=1).fit(P.copy(), y.copy())
                e64 = ml.MMC(init=A0.copy(), max_iter=mi, random_state=1).fit(P.copy(), y.copy())
            except Exception as e:
                viol.append(V(site, 'raises', 'float32 SPD array init: fit raised %s: %s' % (type(e).__name__, str(e)[:120]), tr))
                break
            evals += 2
            states += 1
            trans += 2
            if not np.array_equal(i32, A0.astype(np.float32)):
                viol.append(V(site, 'mutates_init', 'the float32 init array was modified by fit', tr))
            M32, M64 = np.asarray(e32.get_mahalanobis_matrix(), dtype=float), e64.get_mahalanobis_matrix()
            if not np.isfinite(M32).all():
                viol.append(V(site, 'not_finite', 'float32 init: learned matrix contains NaN / inf', tr))
                break
            s32 = np.einsum('ij,jk,ik->', pos_diff, M32, pos_diff)
            stats['worst_budget_ratio'] = max(stats['worst_budget_ratio'], s32 / t)
            if s32 > 1.0102 * t:
                viol.append(V(site, 'budget_exceeded', 'float32 init: sum of squared learned distances over the similar pairs is %.4f x the budget '
                              '[max_iter=%d]' % (s32 / t, mi), tr, ratio=s32 / t))
            lam = np.linalg.eigvalsh((M32 + M32.T) / 2)
            if lam.min() < -64 * d * float(np.finfo(np.float32).eps) * np.abs(M32).max():
                viol.append(V(site, 'not_psd', 'float32 init: learned matrix has eigenvalue %.3g' % lam.min(), tr))
            dev = np.abs(M32 - M64).max() / max(np.abs(M64).max(), 1e-300)
            stats['worst_f32_vs_f64'] = max(stats.get('worst_f32_vs_f64', 0.0), dev / 1e-3)
            if mi == 1 and not dev <= 1e-3:
                viol.append(V(site, 'not_projection_of_init', 'float32 init: after one iteration the result differs from the run started from the '
                              'double-precision copy of the same matrix by %.3g relative' % dev, tr))
            sigs.add((dsn, 'array_float32', mi, round(float(s32 / t), 3)))
        return dict(evals=evals, sigs=sigs, viol=viol, states=states, transitions=trans,
                    stats={k: v for k, v in stats.items() if not k.startswith('worst_')},
                    headroom={k: v for k, v in stats.items() if k.startswith('worst_')},
                    sample={'learner': 'MMC', 'dataset': dsn, 'init': 'SPD array as float32', 'budgets': [1, 2, 5, K]})
    if kind == 'full':
        site = 'MMC.fit'
        tr = ['init=' + ini]
        W = np.einsum('ij,ik->jk', pos_diff, pos_diff)
        t = W.ravel().dot(A0.ravel()) / 100.0
        R0, _ = reference_projection(A0, W, t)
        if (W.ravel().dot(R0.ravel()) - t) / t >= 0.01:
            # outside the property's domain ("max_proj large enough for one projection to converge"): the solver then
            # never obtains a feasible iterate and hands back the initial matrix
            return dict(evals=0, sigs=[], viol=[], states=0, transitions=0, stats={'skipped_first_projection_does_not_converge': 1},
                        sample={'learner': 'MMC', 'dataset': dsn, 'init': ini, 'skipped': 'first projection does not converge in max_proj steps'})
        # (1) a tolerance so large that convergence is declared in the very cycle that accepts the first projection, and
        # (2) max_proj equal to exactly the number of turns that first projection needs (counted by the reference, used only
        #     when the reference's stopping decision had a clear margin): both are inside the documented domain, the result
        #     must be the accepted (feasible) iterate - not the initial matrix
        k_turns = reference_projection.turns
        _, margin0 = reference_projection(A0, W, t)
        extra = [('tol=0.5', dict(tol=0.5, max_iter=K)), ('tol=1e6', dict(tol=1e6, max_iter=K))]
        if margin0 > 1e-6:
            extra += [('max_proj=turns_needed(%d)' % k_turns, dict(max_proj=k_turns, max_iter=mi_)) for mi_ in (1, 3)]
        for lab_, kw_ in extra:
            est = ml.MMC(init=iv, random_state=1, **kw_)
            try:
                est.fit(P.copy(), y.copy())
            except Exception as e:
                viol.append(V(site, 'raises', 'fit raised %s: %s [%s]' % (type(e).__name__, str(e)[:120], lab_), tr + [lab_]))
                continue
            evals += 1
            states += 1
            trans += 1
            judge_full(site, est.get_mahalanobis_matrix(), A0, pos_diff, neg_diff, tr + [lab_], viol, stats)
            sigs.add((dsn, ini, lab_.split('(')[0], est.n_iter_))
        for tol_ in (1e-3, 1e-6):
          tr = ['init=' + ini, 'tol=%g' % tol_]
          prev = None
          for mi in range(1, K + 1):
              est = ml.MMC(init=iv, max_iter=mi, tol=tol_, random_state=1)
              try:
                  est.fit(P.copy(), y.copy())
              except Exception as e:
                  viol.append(V(site, 'raises', 'fit raised %s: %s' % (type(e).__name__, str(e)[:120]), tr))
                  break
              evals += 1
              states += 1
              trans += 1
              if isinstance(iv, np.ndarray) and not np.array_equal(iv, pristine):
                  viol.append(V(site, 'mutates_init', 'the init array was modified by fit', tr))
                  iv = pristine.copy(order='K')
              M = est.get_mahalanobis_matrix()
              g = judge_full(site, M, A0, pos_diff, neg_diff, tr + ['max_iter=%d' % mi], viol, stats)
              if g is None:
                  break
              if prev is not None and g < prev - 1e-9 * (1 + abs(prev)):
                  viol.append(V(site, 'objective_decreases_with_budget', 'dissimilar-pair objective falls from %.10g to %.10g when max_iter goes to %d: '
                                'the result is not the last feasible improving iterate' % (prev, g, mi), tr))
              prev = g
              if mi == 1:
                  R, margin = reference_projection(A0, W, t)
                  if margin < 1e-9:
                      amb += 1
                  else:
                      res = np.abs(M - R).max() / max(np.abs(R).max(), 1e-300)
                      stats['worst_projection_residual'] = max(stats['worst_projection_residual'], res)
                      if not res <= 1e-7:
                          viol.append(V(site, 'not_projection_of_init', 'with one iteration the result differs from the alternating projection of the '
                                        '%s initial matrix onto {budget} and {PSD} by %.3g relative' % (ini, res), tr))
              if mi == 2:       # the same state reached by a second fit of the same object
                  est.fit(P.copy(), y.copy())
                  evals += 1
                  trans += 1
                  if not np.array_equal(est.get_mahalanobis_matrix(), M):
                      viol.append(V(site, 'refit_differs', 'a second fit of the same object gives another matrix (budget no longer relative to the '
                                    'given init)', tr + ['refit']))
                  judge_full(site, est.get_mahalanobis_matrix(), A0, pos_diff, neg_diff, tr + ['refit'], viol, stats)
              if np.abs(M - A0).max() > 1e-9:
                  sigs.add((dsn, ini, tol_, mi, round(float(g), 6)))
        return dict(evals=evals, sigs=sigs, viol=viol, states=states, transitions=trans,
                    stats={k: v for k, v in stats.items() if not k.startswith('worst_')},
                    headroom={k: v for k, v in stats.items() if k.startswith('worst_')}, ambiguous=amb,
                    sample={'learner': 'MMC', 'dataset': dsn, 'init': ini, 'budgets': '1..%d' % K})
    if kind == 'diag':
        site = 'MMC.fit(diagonal)'
        for c in (0.5, 1.0, 10.0):
            for mi in list(range(0, K + 1)) + [100]:
                tr = ['init=' + ini, 'diagonal_c=%g' % c]
                est = ml.MMC(init=iv, diagonal=True, diagonal_c=c, max_iter=mi, random_state=1)
                evals += 1
                states += 1
                trans += 1
                try:
                    est.fit(P.copy(), y.copy())
                except ValueError:
                    sigs.add((dsn, ini, c, mi, 'ValueError'))
                    continue
                except Exception as e:
                    viol.append(V(site, 'wrong_exception', 'diagonal fit raised %s (only ValueError is documented)' % type(e).__name__, tr))
                    continue
                M = est.get_mahalanobis_matrix()
                if not np.isfinite(M).all() or not np.isfinite(est.components_).all():
                    viol.append(V(site, 'nan_returned', 'diagonal fit returned a matrix with NaN / inf [max_iter=%d]' % mi, tr))
                    continue
                if np.abs(M - np.diag(np.diag(M))).max() > 0:
                    viol.append(V(site, 'not_diagonal', 'diagonal=True returned a non-diagonal matrix', tr))
                if np.diag(M).min() < 0:
                    viol.append(V(site, 'negative_entry', 'diagonal matrix has a negative entry', tr))
                if mi == 0 and np.abs(np.diag(M) - np.diag(A0)).max() > 1e-12 * np.abs(A0).max():
                    viol.append(V(site, 'init_not_start', 'with zero iterations the diagonal of the %s initial matrix is not returned' % ini, tr))
                sigs.add((dsn, ini, c, mi, tuple(np.round(np.diag(M), 8))))
        return dict(evals=evals, sigs=sigs, viol=viol, states=states, transitions=trans,
                    stats={k: v for k, v in stats.items() if not k.startswith('worst_')},
                    headroom={k: v for k, v in stats.items() if k.startswith('worst_')},
                    sample={'learner': 'MMC(diagonal=True)', 'dataset': dsn, 'init': ini, 'diagonal_c': [0.5, 1, 10], 'budgets': '0..%d, 100' % K})
    # ---- supervised
    from checks.c08_supervised import Capture
    site = 'MMC_Supervised.fit'
    for s in (0, 1):
        prev = None
        for mi in (1, 2, 3, 5, K):
            est = ml.MMC_Supervised(init=iv, n_constraints=25, max_iter=mi, random_state=s)
            with Capture(ml.mmc._BaseMMC) as cap:
                try:
                    est.fit(ds.X.copy(), ds.y.copy())
                except Exception as e:
                    viol.append(V(site, 'raises', '%s: %s' % (type(e).__name__, str(e)[:100]), [ini]))
                    break
            evals += 1
            states += 1
            trans += 1
            Pc = cap.seen[0][0]
            yc = np.asarray(cap.seen[0][1][0])
            A0, _ = priors.prior_matrix(np.array(pristine) if isinstance(pristine, np.ndarray) else pristine, Pc, d, seed=s)
            pd_, nd_ = Pc[yc == 1][:, 0] - Pc[yc == 1][:, 1], Pc[yc == -1][:, 0] - Pc[yc == -1][:, 1]
            Ws = np.einsum('ij,ik->jk', pd_, pd_)
            ts = Ws.ravel().dot(A0.ravel()) / 100.0
            Rs, _ = reference_projection(A0, Ws, ts)
            if (Ws.ravel().dot(Rs.ravel()) - ts) / ts >= 0.01:
                stats['skipped_first_projection_does_not_converge'] = stats.get('skipped_first_projection_does_not_converge', 0) + 1
                break         # same domain condition as above
            g = judge_full(site, est.get_mahalanobis_matrix(), A0, pd_, nd_, ['init=' + ini, 'supervised', 'max_iter=%d' % mi], viol, stats)
            if g is None:
                break
            if prev is not None and g < prev - 1e-9 * (1 + abs(prev)):
                viol.append(V(site, 'objective_decreases_with_budget', 'dissimilar-pair objective falls from %.10g to %.10g at max_iter=%d'
                              % (prev, g, mi), ['init=' + ini, 'supervised']))
            prev = g
            sigs.add(('sup', dsn, ini, s, mi, round(float(g), 6)))
    return dict(evals=evals, sigs=sigs, viol=viol, states=states, transitions=trans,
                    stats={k: v for k, v in stats.items() if not k.startswith('worst_')},
                    headroom={k: v for k, v in stats.items() if k.startswith('worst_')},
                sample={'learner': 'MMC_Supervised', 'dataset': dsn, 'init': ini})
