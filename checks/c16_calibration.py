"""C16 - threshold calibration picks an optimal cut-off (DESIGN.md section 5, C16).

E1, exhaustive: every multiset of (distance level, label) validation pairs up to the tier size over 4 distance
levels (level 0 = identical points, equal levels = exact ties) x 2 array orders x every strategy / beta / min_rate
of the alphabet, on the real calibrate_threshold of fitted ITML / MMC / SDML, against a brute force over all
cut-offs in exact rational arithmetic.  Plus the fit(calibration_params=...) path and the invalid-parameter clause.
"""
import itertools
import warnings
from fractions import Fraction

import numpy as np

from mc import env  # noqa: F401
from mc import data, zoo

PID = 'C16'
LEVEL = 'exploration'
RULE = ('all multisets of size 2..N (N = 5 quick, 7 thorough) over {4 distance levels} x {+1,-1} containing both '
        'labels (levels: 0, 1, 1 + 2^-30, 3 times a fixed distance), in sorted and in reversed-interleaved array order, x strategies {accuracy, f_beta(beta in 0,1/2,1,2), '
        'max_tpr / max_tnr (min_rate in 0,1/4,1/3,1/2,1)}; signature = (strategy, ordinal tie pattern with labels, '
        'whether the optimum is reject-all / accept-all / interior); non-trivial = at least two attainable cut-offs '
        'give different criterion values')
ASSUMPTIONS = ['Ground-truth distances are the ones pair_distance returns for the validation batch (bound to the '
               'exact metric by C01/C02); criteria are evaluated in exact rational arithmetic on predict().',
               'A min_rate constraint whose exact and floating evaluation could differ (|rate - min_rate| < 1e-9, '
               'not equal) is counted ambiguous and not judged.']
BOUNDS = {'quick': dict(max_size=5, datasets=['S3u']), 'thorough': dict(max_size=7, datasets=['S3u', 'S5'])}
# distance levels: identical points, two levels that differ by 2^-30 relative (a NEAR tie, not a tie), a clearly larger one
LEVELS = [0.0, 1.0, 1.0 + 2.0 ** -30, 3.0]
BETAS = [0.0, 0.5, 1.0, 2.0]
RATES = [0.0, 0.25, 1.0 / 3.0, 0.5, 1.0]
STRATS = ([('accuracy', {})] + [('f_beta', {'beta': b}) for b in BETAS]
          + [('max_tpr', {'min_rate': r}) for r in RATES] + [('max_tnr', {'min_rate': r}) for r in RATES])


def V(site, clause, msg, triggers=(), **detail):
    return dict(site=site, clause=clause, msg=msg, triggers=list(triggers), detail=detail)


def criterion(strategy, params, pred, y):
    """(value, feasible, ambiguous) of a prediction vector, exactly."""
    tp = int(np.sum((pred == 1) & (y == 1)))
    fp = int(np.sum((pred == 1) & (y == -1)))
    tn = int(np.sum((pred == -1) & (y == -1)))
    fn = int(np.sum((pred == -1) & (y == 1)))
    P, N = tp + fn, tn + fp
    if strategy == 'accuracy':
        return Fraction(tp + tn, P + N), True, False
    if strategy == 'f_beta':
        if tp == 0:
            return Fraction(0), True, False
        b2 = Fraction(params['beta']) ** 2
        prec, rec = Fraction(tp, tp + fp), Fraction(tp, P)
        return (1 + b2) * prec * rec / (b2 * prec + rec), True, False
    m = Fraction(params['min_rate'])
    tpr, tnr = Fraction(tp, P), Fraction(tn, N)
    con, obj = (tnr, tpr) if strategy == 'max_tpr' else (tpr, tnr)
    amb = con != m and abs(con - m) < Fraction(1, 10 ** 9)
    return obj, con >= m, amb


def brute(strategy, params, dist, y):
    """Best criterion value over every attainable prediction set; also all values (for non-triviality)."""
    cuts = [None] + sorted(set(dist.tolist()))
    vals, amb = [], False
    for c in cuts:
        pred = np.where(dist <= c, 1, -1) if c is not None else -np.ones(len(y), dtype=int)
        v, feas, a = criterion(strategy, params, pred, y)
        amb = amb or a
        if feas:
            vals.append((v, c))
    best = max(v for v, _ in vals)
    kind = 'reject_all' if all(c is None for v, c in vals if v == best) else (
        'accept_all' if all(c == cuts[-1] for v, c in vals if v == best) else 'interior')
    return best, len(set(v for v, _ in vals)) > 1, amb, kind


def fitted(name, dsname):
    return zoo.fit(name, data.dataset(dsname))


def cases(tier, seed):
    b = BOUNDS[tier]
    out = []
    syms = [(lv, lab) for lv in range(4) for lab in (1, -1)]
    for dsn in b['datasets']:
        for name in zoo.PAIRS:
            for n in range(2, b['max_size'] + 1):
                ms = [m for m in itertools.combinations_with_replacement(range(8), n)
                      if len({syms[i][1] for i in m}) == 2]
                # a case = a block of multisets (keeps per-case overhead, i.e. the fit, small)
                blk = 60
                for k in range(0, len(ms), blk):
                    out.append(('%s/%s/n=%d/blk=%d' % (name, dsn, n, k // blk), ('cal', name, dsn, ms[k:k + blk])))
            out.append(('%s/%s/fitpath' % (name, dsn), ('fitpath', name, dsn)))
            out.append(('%s/%s/invalid' % (name, dsn), ('invalid', name, dsn)))
    # rotating member: random larger validation sets with ties
    rs = np.random.RandomState(1600 + seed)
    ms = []
    while len(ms) < 40:
        m = tuple(sorted(rs.randint(0, 8, size=b['max_size'] + 3).tolist()))
        if len({syms[i][1] for i in m}) == 2:
            ms.append(m)
    out.append(('MMC/S3u/rot', ('cal', 'MMC', 'S3u', ms)))
    return out


def cost(spec):
    return len(spec[3]) * len(spec[3][0]) if spec[0] == 'cal' else 30


_CACHE = {}


def run_case(spec):
    kind, name, dsn = spec[0], spec[1], spec[2]
    ds = data.dataset(dsn)
    syms = [(lv, lab) for lv in range(4) for lab in (1, -1)]
    viol, sigs = [], set()
    evals = amb_n = 0
    stats = {'intended_ties_realised': 0, 'intended_ties_total': 0}
    site = 'calibrate_threshold'
    if kind == 'cal':
        key = (name, dsn)
        if key not in _CACHE:
            _CACHE[key] = fitted(name, dsn)
        est = _CACHE[key]
        v = ds.X[1] - ds.X[0]
        sample = None
        for m in spec[3]:
            for order in ('sorted', 'mixed'):
                idx = list(m) if order == 'sorted' else list(m)[::2][::-1] + list(m)[1::2]
                lv = np.array([LEVELS[syms[i][0]] for i in idx], dtype=float)
                y = np.array([syms[i][1] for i in idx])
                pairs = np.stack([np.zeros((len(idx), ds.d)), lv[:, None] * v[None, :]], axis=1)
                dist = est.pair_distance(pairs)
                # did equal levels give bit-equal distances (intended ties)?
                for a in range(len(idx)):
                    for c in range(a + 1, len(idx)):
                        if lv[a] == lv[c]:
                            stats['intended_ties_total'] += 1
                            stats['intended_ties_realised'] += int(dist[a] == dist[c])
                for strat, params in STRATS:
                    with warnings.catch_warnings():
                        warnings.simplefilter('ignore')
                        try:
                            r = est.calibrate_threshold(pairs, y, strategy=strat, **params)
                            pred = est.predict(pairs)
                        except Exception as e:
                            viol.append(V(site, 'raises', '%s: %s' % (type(e).__name__, e), [strat],
                                          levels=lv.tolist(), y=y.tolist(), strategy=strat, params=params))
                            evals += 1
                            continue
                    evals += 1
                    best, nontrivial, amb, okind = brute(strat, params, dist, y)
                    if amb:
                        amb_n += 1
                        continue
                    got, feas, _ = criterion(strat, params, pred, y)
                    if r is not est:
                        viol.append(V(site, 'returns_self', 'calibrate_threshold did not return the estimator', [strat]))
                    if not np.array_equal(pred, np.where(dist <= est.threshold_, 1, -1)):
                        viol.append(V(site, 'predict_consistency', 'predict is not (distance <= threshold_)', [strat]))
                    if not feas:
                        viol.append(V(site, 'infeasible', 'stored threshold violates the min_rate constraint', [strat],
                                      levels=lv.tolist(), y=y.tolist(), strategy=strat, params=params,
                                      threshold=est.threshold_))
                    elif got != best:
                        trig = [strat]
                        if len(set(dist.tolist())) < len(dist):
                            trig.append('ties')
                        viol.append(V(site, 'suboptimal', '%s attains %s, best attainable %s (levels=%s labels=%s %s)'
                                      % (strat, got, best, lv.tolist(), y.tolist(), params), trig,
                                      levels=lv.tolist(), y=y.tolist(), strategy=strat, params=params,
                                      threshold=est.threshold_, got=str(got), best=str(best)))
                    if nontrivial:
                        ordinal = tuple(sorted(zip(np.unique(dist, return_inverse=True)[1].tolist(), y.tolist())))
                        sigs.add((strat, tuple(sorted(params.items())), ordinal, okind))
                if sample is None:
                    sample = {'learner': name, 'dataset': dsn, 'levels': lv.tolist(), 'labels': y.tolist(),
                              'order': order, 'strategies': [s for s, _ in STRATS][:3] + ['...']}
        return dict(evals=evals, sigs=sigs, viol=viol, ambiguous=amb_n, stats=stats, sample=sample)

    if kind == 'fitpath':
        pairs = ds.pairs
        # label variants: clean, and two noisy ones (overlapping classes, so the optima of the criteria differ)
        variants = {'clean': ds.ypairs.copy()}
        yn = ds.ypairs.copy()
        yn[::3] *= -1
        variants['flip_every_3rd'] = yn
        yn = ds.ypairs.copy()
        yn[1::4] *= -1
        yn[2::7] *= -1
        variants['flip_mixed'] = yn
        distinct_optima = set()
        for vname, y in variants.items():
            for strat, params in [('default', None)] + STRATS:
                est = zoo.make(name, ds)
                with warnings.catch_warnings():
                    warnings.simplefilter('ignore')
                    try:
                        if params is None:
                            est.fit(pairs, y)
                            strat_eff, par_eff = 'accuracy', {}
                        else:
                            cp = dict(strategy=strat, **params)
                            cp0 = dict(cp)
                            zoo.make(name, ds).fit(pairs, y, calibration_params=cp)   # a first fit given this dict object
                            est.fit(pairs, y, calibration_params=cp)                  # ... and a second one given the SAME object
                            if cp != cp0:
                                viol.append(V('fit(calibration_params)', 'mutates_calibration_params',
                                              'fit modified the calibration_params dict given by the caller (%r -> %r)' % (cp0, cp),
                                              [strat, 'fitpath']))
                            strat_eff, par_eff = strat, params
                    except RuntimeError:
                        continue          # SDML may legitimately fail on noisy labels (C13 failure clause)
                    dist = est.pair_distance(pairs)
                    pred = est.predict(pairs)
                evals += 1
                best, nontrivial, amb, okind = brute(strat_eff, par_eff, dist, y)
                if amb:
                    amb_n += 1
                    continue
                got, feas, _ = criterion(strat_eff, par_eff, pred, y)
                if not feas or got != best:
                    viol.append(V('fit(calibration_params)', 'suboptimal',
                                  'fit (%s labels) with %s %s: attains %s (feasible=%s), best attainable %s'
                                  % (vname, strat, params, got, feas, best), [strat_eff, 'fitpath'],
                                  strategy=strat, params=params, threshold=est.threshold_, labels=vname))
                distinct_optima.add((vname, int(pred.sum())))
                if nontrivial:
                    sigs.add(('fitpath', name, vname, strat, tuple(sorted((params or {}).items())), okind))
        return dict(evals=evals, sigs=sigs, viol=viol, ambiguous=amb_n,
                    stats={'fitpath_distinct_optimal_prediction_sets': len(distinct_optima)},
                    sample={'learner': name, 'dataset': dsn, 'path': 'fit(calibration_params=...)',
                            'label_variants': list(variants)})

    if kind == 'invalid':
        bad = ([dict(strategy='weird')] + [dict(strategy=None)] +
               [dict(strategy=s, min_rate=r) for s in ('max_tpr', 'max_tnr')
                for r in (None, -0.1, 1.5, 'a', float('nan'), '0.5', b'1', [0.5], 2 + 0j)] +
               [dict(strategy='f_beta', beta=b) for b in (None, 'a', '2', b'1', [1.0])])
        calls = [0]

        def counting(idx):
            calls[0] += 1
            return ds.X[idx]
        fitted_est = fitted(name, dsn)
        thr0 = fitted_est.threshold_
        for p in bad:
            # (a) direct calibration on a fitted learner
            try:
                with warnings.catch_warnings():
                    warnings.simplefilter('ignore')
                    fitted_est.calibrate_threshold(ds.pairs, ds.ypairs, **p)
                viol.append(V(site, 'invalid_accepted', 'invalid calibration parameters %r accepted' % (p,), ['invalid']))
            except ValueError:
                if fitted_est.threshold_ != thr0:
                    viol.append(V(site, 'invalid_side_effect', 'threshold_ changed by a rejected call', ['invalid']))
            except Exception as e:
                viol.append(V(site, 'invalid_wrong_exception', '%r raised %s, not ValueError' % (p, type(e).__name__),
                              ['invalid']))
            evals += 1
            # (b) through fit: rejected before any fitting work (preprocessor never consulted, nothing learned)
            calls[0] = 0
            est = zoo.make(name, ds, preprocessor=counting)
            try:
                with warnings.catch_warnings():
                    warnings.simplefilter('ignore')
                    est.fit(ds.pairs_idx, ds.ypairs, calibration_params=p)
                viol.append(V('fit(calibration_params)', 'invalid_accepted', 'invalid %r accepted by fit' % (p,),
                              ['invalid']))
            except ValueError:
                if calls[0] or hasattr(est, 'components_'):
                    viol.append(V('fit(calibration_params)', 'invalid_after_work',
                                  'invalid %r rejected only after fitting work (preprocessor calls=%d, components_=%s)'
                                  % (p, calls[0], hasattr(est, 'components_')), ['invalid']))
            except Exception as e:
                viol.append(V('fit(calibration_params)', 'invalid_wrong_exception',
                              '%r raised %s, not ValueError' % (p, type(e).__name__), ['invalid']))
            evals += 1
            sigs.add(('invalid', name, repr(sorted(p.items(), key=str))))
        return dict(evals=evals, sigs=sigs, viol=viol,
                    sample={'learner': name, 'dataset': dsn, 'invalid_parameters': [repr(p) for p in bad][:4]})
