"""C13 - SDML minimises the documented sparse LogDet objective (DESIGN.md section 5, C13).

E1: SDML, SDML_Supervised x prior options x balance_param (fractions of the largest value keeping the graphical-lasso
input positive definite, and multiples of it for the failure clause) x sparsity_param x datasets; the objective value of
the learned M is compared with that of an independent ADMM solution (itself certified by its KKT residual).
"""
import warnings

import numpy as np

from mc import env  # noqa: F401
from mc import data, zoo
from mc.refmodel import glasso_admm, priors
import metric_learn as ml

PID = 'C13'
LEVEL = 'exploration'
RULE = ('SDML x prior {identity, covariance, random, SPD array in C and in Fortran order} x balance_param in {0.1, 0.5, 0.9} x b_max (b_max = largest balance '
        'keeping S = M0^-1 + balance sum y v v^T positive definite) and, for the failure clause, {2, 10, 100} x b_max x sparsity_param in '
        '{1e-3, 1e-2, 1e-1, 1} x datasets; SDML_Supervised x prior x seeds. non-trivial (measured per case) = the optimum of each '
        'mutated problem (prior instead of its inverse, labels dropped, balance dropped) differs in objective by > 100 x tolerance')
ASSUMPTIONS = ['Reference optimum: mc/refmodel/glasso_admm.py solved to 1e-13, accepted only if its KKT residual is <= 1e-7; '
               'tolerance on the objective 2e-4 (1 + |obj|): the installed graphical lasso stops at an absolute dual gap of 1e-4, which bounds its '
               'sub-optimality; runs that report non-convergence are counted, not judged.',
               'Failure clause: any outcome must be RuntimeError or a finite symmetric positive definite matrix.']
# (an SPD array with condition number 1e10 was tried as a further option: on the unchanged tree LSML's fixed step grid and the
# graphical lasso both stop being reliable there, so it cannot separate a defect from solver limits and is not part of the alphabet)
PRIORS = ['identity', 'covariance', 'random', 'array', 'array_F']      # array_F: the same SPD array, Fortran-ordered
SPARS = [1e-3, 1e-2, 1e-1, 1.0]


def illcond(d):
    """SPD array with condition number 1e10 (eigen-directions from the fixed SPD matrix, eigenvalues log-spaced 1e-5..1e5)."""
    _, Q = np.linalg.eigh(data.spd(d))
    return (Q * np.logspace(-5, 5, d)).dot(Q.T)


def V(site, clause, msg, triggers=(), **detail):
    return dict(site=site, clause=clause, msg=msg, triggers=list(triggers), detail=detail)


def cases(tier, seed):
    out = []
    for dsn in (['S2', 'S3u', 'S5'] if tier == 'quick' else data.THOROUGH):
        for pr in PRIORS:
            out.append(('SDML/%s/%s' % (dsn, pr), ('sdml', dsn, pr, seed)))
            out.append(('SDML_Supervised/%s/%s' % (dsn, pr), ('sup', dsn, pr, seed)))
    return out


def b_max(M0inv, Lm):
    """largest b with M0inv + b * Lm positive definite (inf if Lm is PSD)."""
    w, Q = np.linalg.eigh(M0inv)
    Wi = (Q / np.sqrt(w)).dot(Q.T)
    lam = np.linalg.eigvalsh(Wi.dot(Lm).dot(Wi))
    # (a rank-deficient PSD loss matrix has computed eigenvalues of order -1e-17: that is zero, not a direction of descent)
    return np.inf if lam.min() >= -1e-12 * max(np.abs(lam).max(), 1e-300) else -1.0 / lam.min()


def judge(site, est_factory, fit_args, M0, M0inv, diff, y, balances, tr0, viol, sigs, stats, sigkey):
    evals = 0
    d = M0.shape[0]
    Lm = (diff.T * y).dot(diff)
    bm = b_max(M0inv, Lm)
    if not np.isfinite(bm):
        bm = 1.0 / max(np.linalg.eigvalsh(Lm).max(), 1e-300)
    for frac in balances:
        bal = frac * bm
        for sp in SPARS:
            tr = tr0 + ['balance=%gxbmax' % frac, 'sparsity=%g' % sp]
            S = M0inv + bal * Lm
            pd_in = np.linalg.eigvalsh(S).min() > 1e-8 * np.abs(S).max()
            est = est_factory(bal, sp)
            evals += 1
            try:
                with warnings.catch_warnings(record=True) as wrec:
                    warnings.simplefilter('always')
                    est.fit(*fit_args)
                out = 'ok'
            except RuntimeError:
                out = 'RuntimeError'
            except Exception as e:
                out = type(e).__name__
                viol.append(V(site, 'wrong_exception', 'fit raised %s (%s); only RuntimeError is documented for solver failures'
                              % (type(e).__name__, str(e)[:100]), tr + (['pd_input'] if pd_in else ['indefinite_input'])))
                continue
            if out == 'RuntimeError':
                if frac < 1:
                    viol.append(V(site, 'fails_on_pd_input', 'fit raised RuntimeError although the graphical-lasso input is positive definite', tr))
                else:
                    sigs.add(sigkey + (frac, sp, 'RuntimeError'))
                continue
            M = est.get_mahalanobis_matrix()
            lam = np.linalg.eigvalsh((M + M.T) / 2) if np.isfinite(M).all() else np.array([-np.inf])
            if not np.isfinite(M).all() or lam.min() <= 0 or np.abs(M - M.T).max() > 1e-8 * np.abs(M).max():
                viol.append(V(site, 'not_spd', 'fit returned a matrix that is not finite symmetric positive definite (lambda_min %.3g)'
                              % lam.min(), tr + (['pd_input'] if pd_in else ['indefinite_input'])))
                continue
            if frac >= 1:
                sigs.add(sigkey + (frac, sp, 'spd'))
                continue
            Theta, Z, its = glasso_admm.solve(S, sp)
            kkt = glasso_admm.kkt_violation(S, Theta, sp)
            if kkt > 1e-7:
                stats['reference_not_certified'] += 1
                continue
            fref = glasso_admm.objective(S, Theta, sp)
            f = glasso_admm.objective(S, M, sp)
            if any('did not converge' in str(x.message) for x in wrec):
                stats['solver_did_not_converge_not_judged'] += 1      # the dual-gap bound only holds for converged runs
                continue
            tol = 2e-4 * (1 + abs(fref))
            stats_h = abs(f - fref) / tol
            stats['_worst'] = max(stats['_worst'], stats_h)
            if not abs(f - fref) <= tol:
                viol.append(V(site, 'not_minimiser', 'objective of the learned M is %.8g, the independently computed optimum is %.8g '
                              '(difference %.3g > %.3g)' % (f, fref, f - fref, tol), tr, gap=f - fref))
            # non-vacuity: do the mutated problems have a different optimum value (evaluated on the true objective)?
            nontrivial = True
            for S_mut in (np.linalg.inv(M0inv) + bal * Lm, M0inv + bal * diff.T.dot(diff), M0inv):
                if np.linalg.eigvalsh(S_mut).min() <= 0:
                    continue
                Tm, _, _ = glasso_admm.solve(S_mut, sp, iters=3000, tol=1e-10)
                if abs(glasso_admm.objective(S, Tm, sp) - fref) <= 100 * tol and not np.allclose(S_mut, S):
                    nontrivial = False
            stats['cases_distinguishing_all_mutated_problems'] += int(nontrivial)
            if nontrivial:
                sigs.add(sigkey + (frac, sp, int((np.abs(Theta - np.diag(np.diag(Theta))) > 1e-9).sum())))
    return evals


def run_case(spec):
    warnings.simplefilter('ignore')
    kind, dsn, pr, seed = spec
    ds = data.dataset('R', seed) if dsn == 'R' else data.dataset(dsn)
    d = ds.d
    prv = data.spd(d) if pr == 'array' else (np.asfortranarray(data.spd(d)) if pr == 'array_F' else pr)
    viol, sigs = [], set()
    stats = {'solver_did_not_converge_not_judged': 0, 'reference_not_certified': 0, '_worst': 0.0, 'cases_distinguishing_all_mutated_problems': 0}
    evals = 0
    if kind == 'sdml' and pr == 'identity':
        # integer-typed pairs with LARGE coordinates (differences ~1e5, squares beyond int32): same metric as the float copy
        dsL = data.scaled(ds, 2.0 ** 21)
        PL = dsL.pairs.copy()
        assert np.array_equal(PL, np.round(PL)) and np.abs(PL).max() < 2 ** 31
        diffL = PL[:, 0] - PL[:, 1]
        LmL = (diffL.T * ds.ypairs).dot(diffL)
        bal = 0.5 * b_max(np.eye(d), LmL)
        try:
            Mf = ml.SDML(prior='identity', balance_param=bal, sparsity_param=0.01).fit(PL, ds.ypairs).get_mahalanobis_matrix()
            PLu = PL - PL.min()                 # the same configuration moved to non-negative coordinates: unsigned forms
            for dt in (np.int32, np.int64, np.uint32, np.uint64):
                Pd = (PLu if np.dtype(dt).kind == 'u' else PL).astype(dt)
                Mi = ml.SDML(prior='identity', balance_param=bal, sparsity_param=0.01).fit(Pd, ds.ypairs).get_mahalanobis_matrix()
                evals += 1
                sigs.add(('SDML', dsn, 'large_int_pairs', np.dtype(dt).name))
                if np.abs(Mi - Mf).max() > 1e-9 * np.abs(Mf).max():
                    viol.append(V('SDML.fit', 'integer_pairs_differ', '%s pairs with coordinates ~1e6 give another metric than the same numbers as '
                                  'floats (relative difference %.3g)' % (np.dtype(dt).name, np.abs(Mi - Mf).max() / np.abs(Mf).max()), [np.dtype(dt).name]))
        except Exception as e:
            viol.append(V('SDML.fit', 'raises', 'large integer pairs: fit raised %s: %s' % (type(e).__name__, str(e)[:100]), ['large_int_pairs']))
    if kind == 'sdml':
        P, y = ds.pairs.copy(), ds.ypairs.copy()
        M0, M0inv = priors.prior_matrix(prv, P, d, seed=1)
        diff = P[:, 0] - P[:, 1]
        evals += judge('SDML.fit', lambda b, s: ml.SDML(prior=prv, balance_param=b, sparsity_param=s, random_state=1), (P, y),
                       M0, M0inv, diff, y, [0.1, 0.5, 0.9, 2.0, 10.0, 100.0], [pr], viol, sigs, stats, ('SDML', dsn, pr))
        if pr in ('covariance', 'random', 'array'):
            # the SAME estimator object fitted a second time (other pairs; other seed for the random prior) must return what a
            # fresh estimator returns on that second input: nothing derived from the prior of the first fit may survive
            P2 = (P[::-1][: max(4, (2 * len(P)) // 3)] * np.array([1.0, 2.0] + [0.5] * (d - 2))[:d] + 0.25).copy()
            y2 = y[::-1][: len(P2)].copy()
            if len(set(y2.tolist())) == 2:
                try:
                    bal2 = 0.5 * b_max(priors.prior_matrix(prv, P2, d, seed=1)[1], ((P2[:, 0] - P2[:, 1]).T * y2).dot(P2[:, 0] - P2[:, 1]))
                    bal2 = bal2 if np.isfinite(bal2) and bal2 > 0 else 1e-3
                    for rs2 in ((1, 2) if pr == 'random' else (1,)):
                        e1 = ml.SDML(prior=prv, balance_param=bal2, sparsity_param=0.01, random_state=1)
                        e1.fit(P.copy(), y.copy())
                        e1.set_params(random_state=rs2)
                        e1.fit(P2.copy(), y2.copy())
                        e2 = ml.SDML(prior=prv, balance_param=bal2, sparsity_param=0.01, random_state=rs2).fit(P2.copy(), y2.copy())
                        evals += 3
                        sigs.add(('SDML', dsn, pr, 'refit', rs2))
                        if not np.array_equal(e1.components_, e2.components_):
                            viol.append(V('SDML.fit', 'refit_differs_from_fresh', 'an SDML object fitted on pair set A and then on pair set B%s '
                                          'returns another metric than a fresh object fitted on B (max abs difference %.3g): the second result '
                                          'is not the minimiser of the documented objective for B' % (
                                              ' with another random_state' if rs2 != 1 else '',
                                              np.abs(e1.get_mahalanobis_matrix() - e2.get_mahalanobis_matrix()).max()), [pr, 'refit']))
                except RuntimeError:
                    pass
        if pr in ('identity', 'array'):
            # pair sets of unusual size: a single pair (either label), two pairs, and 1 700 pairs drawn over the same points
            n_pts = len(ds.X)
            big_idx = np.array([(i % n_pts, (i * 7 + 1 + i // n_pts) % n_pts) for i in range(1700)])
            big_idx = big_idx[big_idx[:, 0] != big_idx[:, 1]][:1693]
            big_y = np.where((np.arange(len(big_idx)) * 5) % 7 < 3, 1, -1)
            ipos, ineg = int(np.where(y == 1)[0][0]), int(np.where(y == -1)[0][0])
            for vlab, Pv, yv in (('one_similar_pair', P[[ipos]], y[[ipos]]), ('one_dissimilar_pair', P[[ineg]], y[[ineg]]),
                                 ('two_pairs', P[[ipos, ineg]], y[[ipos, ineg]]), ('1693_pairs', ds.X[big_idx], big_y)):
                M0v, M0invv = priors.prior_matrix(prv, Pv, d, seed=1)
                dv = Pv[:, 0] - Pv[:, 1]
                evals += judge('SDML.fit', lambda b, s: ml.SDML(prior=prv, balance_param=b, sparsity_param=s, random_state=1), (Pv, yv),
                               M0v, M0invv, dv, yv, [0.5, 0.9], [pr, vlab], viol, sigs, stats, ('SDML', dsn, pr, vlab))
    else:
        from checks.c08_supervised import Capture
        for s in (0, 1):
            # learn which pairs the supervised learner consumes for this seed (independent of balance / sparsity)
            probe = ml.SDML_Supervised(prior='identity', balance_param=1e-9, n_constraints=20, random_state=s)
            with Capture(ml.sdml._BaseSDML) as cap:
                try:
                    probe.fit(ds.X.copy(), ds.y.copy())
                except RuntimeError:
                    pass                      # the pairs are captured at entry, before the solver runs
            if not cap.seen:
                viol.append(V('SDML_Supervised.fit', 'raises', 'fit failed before reaching the base learner', [pr]))
                continue
            Pc, yc = cap.seen[0][0], np.asarray(cap.seen[0][1][0])
            M0, M0inv = priors.prior_matrix(prv, Pc, d, seed=s)
            diff = Pc[:, 0] - Pc[:, 1]
            evals += judge('SDML_Supervised.fit',
                           lambda b, sp, s=s: ml.SDML_Supervised(prior=prv, balance_param=b, sparsity_param=sp, n_constraints=20, random_state=s),
                           (ds.X.copy(), ds.y.copy()), M0, M0inv, diff, yc, [0.5, 10.0], [pr, 'supervised', 'seed=%d' % s], viol, sigs, stats,
                           ('SDML_Supervised', dsn, pr, s))
    worst = stats.pop('_worst')
    return dict(evals=evals, sigs=sigs, viol=viol, stats=stats, headroom={'objective_gap_over_tolerance': worst},
                sample={'learner': 'SDML' if kind == 'sdml' else 'SDML_Supervised', 'dataset': dsn, 'prior': pr,
                        'balance': 'fractions / multiples of b_max', 'sparsity': SPARS})
