"""C05 - indices + preprocessor are interchangeable with formed points / tuples (DESIGN.md section 5, C05).

E1: 17 estimators x preprocessor kind x index representation x every data-taking method x datasets; all outputs and
fitted attributes must be bit-identical between the two representations.
"""
import copy
import warnings

import numpy as np

from mc import env  # noqa: F401
from mc import data, zoo
from metric_learn.exceptions import PreprocessorError

PID = 'C05'
LEVEL = 'exploration'
RULE = ('17 estimators x preprocessors {ndarray, nested list, counting callable, record-table callable whose result dtype '
        'depends on the rows requested} x index forms {int64, int8, uint8, int32, uint64, nested list} (training tuples '
        'reuse points; query index arrays contain repeats and are permuted) x methods {fit, transform, pair_distance, '
        'pair_score, score_pairs, predict, decision_function, score, calibrate_threshold} x datasets; signature = '
        '(estimator, preprocessor kind, index form, method); deviation axis: a raising callable')
ASSUMPTIONS = ['Formed arrays built from the indices are bit-identical to the arrays the harness passes as formed data, so '
               'every output is required to be bit-identical (no tolerance).']
INDEX_FORMS = ['int64', 'int8', 'uint8', 'int32', 'uint64', 'list', 'int64_F', 'int32_strided']
PRE_KINDS = ['ndarray', 'list', 'callable', 'records']


def V(site, clause, msg, triggers=(), **detail):
    return dict(site=site, clause=clause, msg=msg, triggers=list(triggers), detail=detail)


def cases(tier, seed):
    out = []
    for name in ('Covariance', 'ITML', 'LSML'):
        out.append(('%s/one_feature_int_points' % name, (name, 'ONE', 'onefeature', seed)))
    for dsn in (['S3u'] if tier == 'quick' else ['S3u', 'S5', 'S2']):
        for name in zoo.ALL:
            out.append(('%s/%s/integer_typed_table' % (name, dsn), (name, dsn, 'inttable', seed)))
    for dsn in data.names(tier, small=True):
        for name in zoo.ALL:
            for pk in PRE_KINDS:
                out.append(('%s/%s/%s' % (name, dsn, pk), (name, dsn, pk, seed)))
    return out


def cost(spec):
    return {'MMC': 5, 'MMC_Supervised': 4, 'LSML': 4, 'ITML': 3, 'ITML_Supervised': 3}.get(spec[0], 1)


def as_form(idx, form):
    idx = np.asarray(idx)
    if form == 'list':
        return idx.tolist()
    if form == 'int64_F':                   # Fortran-ordered (what np.array([left, right]).T yields)
        return np.asfortranarray(idx.astype(np.int64))
    if form == 'int32_strided':             # non-contiguous view
        wide = np.zeros(idx.shape[:-1] + (2 * idx.shape[-1],), dtype=np.int32) if idx.ndim > 1 else np.zeros(2 * len(idx), dtype=np.int32)
        wide[..., ::2] = idx
        return wide[..., ::2]
    return idx.astype(form)


class Counter(object):
    def __init__(self, X):
        self.X, self.calls = X, 0

    def __call__(self, ids):
        self.calls += 1
        return self.X[np.asarray(ids)]


class Records(object):
    """A table of Python records: integer-valued rows are stored as ints, so the dtype of the array returned for a set
    of indices depends on which rows are requested."""

    def __init__(self, X):
        self.rows = [[int(v) for v in r] if np.all(r == np.round(r)) else [float(v) for v in r] for r in X]
        self.calls = 0

    def __call__(self, ids):
        self.calls += 1
        return np.array([self.rows[int(i)] for i in ids])


def same(a, b):
    a, b = np.asarray(a), np.asarray(b)
    return a.shape == b.shape and a.dtype.kind == b.dtype.kind and np.array_equal(a, b)


def one_feature_case(name):
    """Formed INTEGER points with exactly one feature while a preprocessor is set: they are data, not indicators."""
    viol, sigs = [], set()
    rs = np.random.RandomState(3)
    col = np.unique(np.r_[rs.randint(0, 40, size=30), np.arange(0, 12)])[:, None].astype(np.int64)      # (n, 1) distinct ints
    n = len(col)
    table = np.round(rs.randn(60, 1) * 8) / 8                                       # what the indices WOULD address
    calls = Counter(table)
    kind = zoo.KIND[name]
    if kind == 'unsup':
        fa_int, fa_flt = (col,), (col.astype(float),)
    elif kind == 'pairs':
        P = np.array([[col[i], col[(i * 7 + 3) % n]] for i in range(n) if i != (i * 7 + 3) % n])
        y = np.where(np.arange(len(P)) % 2 == 0, 1, -1)
        fa_int, fa_flt = (P, y), (P.astype(float), y)
    else:
        Qd = np.array([[col[i], col[(i + 1) % n], col[(i + 5) % n], col[(i + 11) % n]] for i in range(n)])
        fa_int, fa_flt = (Qd,), (Qd.astype(float),)
    evals = 0
    try:
        e_ref = zoo.cls(name)().fit(*fa_flt)
        e_int = zoo.cls(name)(preprocessor=calls).fit(*fa_int)
        evals += 2
        if calls.calls:
            viol.append(V(name + '.fit', 'preprocessor_consulted', 'formed integer points with one feature were looked up through the '
                          'preprocessor (%d call(s))' % calls.calls, ['one_feature']))
        if not same(e_ref.components_, e_int.components_):
            viol.append(V(name + '.fit', 'fitted_attribute', 'formed integer one-feature data gives another model when a preprocessor is set', ['one_feature']))
        q = col[:7]
        pq = np.array([[col[i], col[i + 3]] for i in range(6)])
        for meth, a_int, a_flt in (('transform', q, q.astype(float)), ('pair_distance', pq, pq.astype(float))):
            c0 = calls.calls
            r_i, r_f = getattr(e_int, meth)(a_int), getattr(e_ref, meth)(a_flt)
            evals += 2
            sigs.add((name, 'one_feature', meth))
            if calls.calls != c0 or not same(r_i, r_f):
                viol.append(V(name + '.' + meth, 'output_differs', '%s on formed integer one-feature data differs from the float copy (or consulted '
                              'the preprocessor)' % meth, ['one_feature']))
    except Exception as e:
        viol.append(V(name + '.fit', 'index_fit_raises', 'one-feature integer data raised %s: %s' % (type(e).__name__, str(e)[:120]), ['one_feature']))
    return dict(evals=evals, sigs=sigs, viol=viol, sample={'estimator': name, 'case': 'formed int64 points with one feature, preprocessor set'})


class TypedCallable(object):
    def __init__(self, T):
        self.T, self.calls = T, 0

    def __call__(self, ids):
        self.calls += 1
        return self.T[np.asarray(ids)]


INT_DTYPES = ['uint8', 'uint16', 'int16', 'uint32', 'uint64', 'int64']


def int_table_case(name, dsn):
    """The point table is stored with an INTEGER dtype (image-like data): as an ndarray preprocessor and as a callable that
    returns rows of that dtype.  Indicators through it must give bit for bit what the same points, formed as floats, give
    (unsigned differences must not wrap around, small integers must not overflow)."""
    warnings.simplefilter('ignore')
    ds0 = data.dataset(dsn)
    viol, sigs = [], set()
    evals = 0
    kind = zoo.KIND[name]
    # the dataset in grid units, shifted to be non-negative: exact integers
    Xi = np.round((ds0.X - ds0.X.min(0)) / data.GRID)
    for dt in INT_DTYPES:
        if dt == 'uint8':
            # coarser units so that the values fit in a byte; kept only if the points stay pairwise distinct
            Xq = np.floor(Xi * (250.0 / Xi.max()))
            if len(np.unique(Xq, axis=0)) < len(Xq):
                continue
        else:
            Xq = Xi
        ds = data.DS()
        ds.__dict__.update(ds0.__dict__)
        ds.X = Xq.astype(float)
        ds.pairs, ds.quads, ds.quads_sat, ds.trip = ds.X[ds0.pairs_idx], ds.X[ds0.quads_idx], ds.X[ds0.quads_sat_idx], ds.X[ds0.trip_idx]
        T = Xq.astype(dt)
        assert np.array_equal(T.astype(float), ds.X)
        formed_args = zoo.train_args(name, ds, 'formed')
        index_args = zoo.train_args(name, ds, 'index')
        try:
            est_f = zoo.make(name, ds).fit(*formed_args)
        except Exception:
            continue            # the quantised dataset is not a usable training set for this learner: nothing to compare
        n = len(T)
        pts_idx = np.array([0, n - 1, 3, 3, 1])
        pair_idx = np.array([(0, 1), (1, 0), (n - 1, 2), (2, n - 1), (3, 3), (5, 4)])
        for pk, pre in (('ndarray', T.copy()), ('callable', TypedCallable(T))):
            tr = ['integer_table', dt, pk]
            site = name
            try:
                est_i = zoo.make(name, ds, preprocessor=pre).fit(*index_args)
            except Exception as e:
                viol.append(V(site + '.fit', 'index_fit_raises', 'fit on indices through a %s %s preprocessor raised %s: %s'
                              % (dt, pk, type(e).__name__, str(e)[:150]), tr))
                evals += 1
                continue
            evals += 1
            sigs.add((name, dsn, dt, pk, 'fit'))
            for attr in ('components_', 'threshold_', 'bounds_', 'n_iter_'):
                if hasattr(est_f, attr) and not (hasattr(est_i, attr) and same(getattr(est_f, attr), getattr(est_i, attr))):
                    viol.append(V(site + '.fit', 'fitted_attribute', '%s differs between fit on formed (float) points and fit on indices through '
                                  'a %s preprocessor holding the same points as %s' % (attr, pk, dt), tr))
            if not hasattr(est_i, 'components_'):
                continue
            calls = [('transform', (pts_idx,), (ds.X[pts_idx],)), ('pair_distance', (pair_idx,), (ds.X[pair_idx],)),
                     ('pair_score', (pair_idx,), (ds.X[pair_idx],))]
            if kind == 'pairs':
                calls += [('decision_function', (pair_idx,), (ds.X[pair_idx],)), ('predict', (pair_idx,), (ds.X[pair_idx],))]
            elif kind in ('triplets', 'quads'):
                k = 3 if kind == 'triplets' else 4
                tup = np.array([[0, 1, n - 1, 2][:k], [2, n - 1, 1, 0][:k], [4, 3, 5, 6][:k]])
                calls += [('decision_function', (tup,), (ds.X[tup],)), ('predict', (tup,), (ds.X[tup],))]
            for meth, ia, fa in calls:
                evals += 2
                try:
                    ri = getattr(est_i, meth)(*ia)
                except Exception as e:
                    viol.append(V(site + '.' + meth, 'index_call_raises', '%s on indices (%s %s preprocessor) raised %s: %s'
                                  % (meth, dt, pk, type(e).__name__, str(e)[:120]), tr))
                    continue
                rf = getattr(est_f, meth)(*fa)
                sigs.add((name, dsn, dt, pk, meth))
                if not same(ri, rf):
                    viol.append(V(site + '.' + meth, 'output_differs', '%s on indices through a %s preprocessor holding %s points differs from the '
                                  'same points formed as floats' % (meth, pk, dt), tr))
    return dict(evals=evals, sigs=sigs, viol=viol,
                sample={'estimator': name, 'dataset': dsn + ' in grid units', 'case': 'integer-typed point table', 'dtypes': INT_DTYPES,
                        'preprocessors': ['ndarray', 'callable']})


def run_case(spec):
    name, dsn, pk, seed = spec
    if pk == 'onefeature':
        return one_feature_case(name)
    if pk == 'inttable':
        return int_table_case(name, dsn)
    ds = data.dataset('R', seed) if dsn == 'R' else data.dataset(dsn)
    warnings.simplefilter('ignore')
    kind = zoo.KIND[name]
    viol, sigs = [], set()
    evals = 0
    # the point table: training points followed by integer-valued points and query points
    Q = data.query_points(ds)[[0, 1, 2, 7, 9, 11]]
    ints = np.array([np.arange(1, ds.d + 1), np.arange(ds.d, 0, -1) * 2, np.zeros(ds.d)], dtype=float)
    table = np.vstack([ds.X, ints, Q])
    n0 = len(ds.X)
    int_rows = list(range(n0, n0 + 3))
    if pk == 'ndarray':
        pre = table.copy()
    elif pk == 'list':
        pre = table.tolist()
    elif pk == 'callable':
        pre = Counter(table)
    else:
        pre = Records(table)
    formed_args = zoo.train_args(name, ds, 'formed')
    index_args = zoo.train_args(name, ds, 'index')
    est_f0 = zoo.make(name, ds).fit(*formed_args)
    site = name
    for form in INDEX_FORMS:
        tr = [pk, form]
        est_f = copy.deepcopy(est_f0)      # calibrate_threshold below changes threshold_
        est_i = zoo.make(name, ds, preprocessor=pre)
        a0 = as_form(index_args[0], form)
        try:
            est_i.fit(a0, *index_args[1:])
        except Exception as e:
            viol.append(V(site + '.fit', 'index_fit_raises', 'fit on %s indices with %s preprocessor raised %s: %s'
                          % (form, pk, type(e).__name__, str(e)[:150]), tr))
            evals += 1
            continue
        evals += 1
        sigs.add((name, pk, form, 'fit'))
        for attr in ('components_', 'threshold_', 'bounds_', 'n_features_in_', 'n_iter_'):
            if hasattr(est_f, attr) or hasattr(est_i, attr):
                if not (hasattr(est_f, attr) and hasattr(est_i, attr) and same(getattr(est_f, attr), getattr(est_i, attr))):
                    viol.append(V(site + '.fit', 'fitted_attribute', '%s differs between fit on formed data and fit on %s '
                                  'indices through a %s preprocessor' % (attr, form, pk), tr))
        if not hasattr(est_i, 'components_'):
            continue
        # ---- query methods: indices (with repeats, permuted, int-valued rows first) vs formed
        m = len(table)
        pts_idx = np.array(int_rows + [n0 + 4, 3, 3, 0, n0 + 5, 1, m - 1, 2, int_rows[0]])
        pair_idx = np.array([(int_rows[0], n0 + 4), (int_rows[1], 3), (int_rows[2], n0 + 5), (3, 3), (0, 1), (1, 0), (m - 1, 2),
                             (2, m - 1), (int_rows[0], int_rows[1]), (5, 7)])
        calls = [('transform', (pts_idx,), (table[pts_idx],)),
                 ('pair_distance', (pair_idx,), (table[pair_idx],)),
                 ('pair_score', (pair_idx,), (table[pair_idx],)),
                 ('score_pairs', (pair_idx,), (table[pair_idx],))]
        if kind == 'pairs':
            yq = np.array([1, -1, 1, 1, -1, -1, 1, -1, 1, -1])
            calls += [('predict', (pair_idx,), (table[pair_idx],)), ('decision_function', (pair_idx,), (table[pair_idx],)),
                      ('score', (pair_idx, yq), (table[pair_idx], yq)),
                      ('calibrate_threshold', (pair_idx, yq), (table[pair_idx], yq))]
        elif kind in ('triplets', 'quads'):
            k = 3 if kind == 'triplets' else 4
            tup = np.array([[int_rows[i % 3], (3 * i + 1) % n0, n0 + 3 + (i % 6), (5 * i + 2) % n0][:k] for i in range(9)])
            calls += [('predict', (tup,), (table[tup],)), ('decision_function', (tup,), (table[tup],)),
                      ('score', (tup,), (table[tup],))]
        for meth, iargs, fargs in calls:
            ia = (as_form(iargs[0], form),) + tuple(iargs[1:])
            c0 = getattr(pre, 'calls', None)
            try:
                ri = getattr(est_i, meth)(*ia)
            except Exception as e:
                viol.append(V(site + '.' + meth, 'index_call_raises', '%s on %s indices (%s preprocessor) raised %s: %s'
                              % (meth, form, pk, type(e).__name__, str(e)[:150]), tr))
                evals += 1
                continue
            c1 = getattr(pre, 'calls', None)
            thr_i = getattr(est_i, 'threshold_', None)
            rf = getattr(est_i, meth)(*fargs)          # same object, formed data: preprocessor must not be consulted
            c2 = getattr(pre, 'calls', None)
            thr_f = getattr(est_i, 'threshold_', None)
            rf2 = getattr(est_f, meth)(*fargs)         # estimator fitted on formed data, formed query
            evals += 3
            sigs.add((name, pk, form, meth))
            if meth == 'calibrate_threshold':
                ok = thr_i == thr_f and thr_f == est_f.threshold_
            else:
                ok = same(ri, rf) and same(rf, rf2)
            if not ok:
                viol.append(V(site + '.' + meth, 'output_differs', '%s differs between %s indices through a %s preprocessor and '
                              'the formed data' % (meth, form, pk), tr))
            if c0 is not None:
                if c1 == c0:
                    viol.append(V(site + '.' + meth, 'preprocessor_not_used', 'indices given but the callable was never called', tr))
                if c2 != c1:
                    viol.append(V(site + '.' + meth, 'preprocessor_consulted', 'formed data given but the preprocessor was called '
                                  '%d time(s)' % (c2 - c1), tr))
        # formed fit with a counting preprocessor: never consulted
        if pk in ('callable', 'records') and form == 'int64':
            c0 = pre.calls
            e2 = zoo.make(name, ds, preprocessor=pre).fit(*formed_args)
            if pre.calls != c0:
                viol.append(V(site + '.fit', 'preprocessor_consulted', 'fit on formed data called the preprocessor', tr))
            if not same(e2.components_, est_f0.components_):
                viol.append(V(site + '.fit', 'fitted_attribute', 'fit on formed data depends on the presence of a preprocessor', tr))
            evals += 1
    # ---- exhaustive small index arrays (incl. repeats, sorted runs with gaps, negative indices): X[indices] semantics
    if pk in ('ndarray', 'list'):
        import itertools
        e = zoo.make(name, ds, preprocessor=pre).fit(*index_args)
        vals = (0, 1, 2, 3, -1)
        bad_t = bad_p = 0
        for L_ in (1, 2, 3, 4):
            for ia in itertools.product(vals, repeat=L_):
                ia = np.array(ia)
                if not same(e.transform(ia), e.transform(table[ia])):
                    bad_t += 1
                evals += 1
        for pa in itertools.product(itertools.product(vals, repeat=2), repeat=2):
            pa = np.array(pa)
            for arr in (pa, np.vstack([pa, pa[::-1], pa[:1]])):
                if not same(e.pair_distance(arr), e.pair_distance(table[arr])):
                    bad_p += 1
                evals += 1
        sigs.add((name, pk, 'exhaustive_small_index_arrays'))
        if bad_t:
            viol.append(V(site + '.transform', 'output_differs', 'transform(indices) differs from transform(points[indices]) for %d of the 780 index '
                          'arrays of length <= 4 over {0,1,2,3,-1} (%s preprocessor)' % (bad_t, pk), [pk, 'small_index_arrays']))
        if bad_p:
            viol.append(V(site + '.pair_distance', 'output_differs', 'pair_distance(index pairs) differs from the formed pairs for %d small index-pair '
                          'arrays (%s preprocessor)' % (bad_p, pk), [pk, 'small_index_arrays']))
    # ---- a table that also holds rows nobody refers to, with missing values (NaN) and an infinity in them
    if pk in ('ndarray', 'list'):
        junk = np.full((2, ds.d), np.nan)
        junk[1, 0] = np.inf
        tbl = np.vstack([table, junk])
        pre_n = tbl.copy() if pk == 'ndarray' else tbl.tolist()
        try:
            e_n = zoo.make(name, ds, preprocessor=pre_n).fit(*index_args)
            evals += 1
            sigs.add((name, pk, 'unreferenced_nan_rows'))
            if not same(e_n.components_, est_f0.components_):
                viol.append(V(site + '.fit', 'fitted_attribute', 'a %s preprocessor with NaN / inf in rows that no indicator refers to gives another '
                              'model than the formed data' % pk, [pk, 'unreferenced_nan_rows']))
            qn = np.array([0, 3, 1])
            if not same(e_n.transform(qn), est_f0.transform(table[qn])):
                viol.append(V(site + '.transform', 'output_differs', 'transform on indices differs from the formed points (%s preprocessor with NaN in '
                              'unreferenced rows)' % pk, [pk, 'unreferenced_nan_rows']))
            e_n2 = zoo.make(name, ds, preprocessor=pre_n).fit(*formed_args)         # formed data: the table is not consulted at all
            if not same(e_n2.components_, est_f0.components_):
                viol.append(V(site + '.fit', 'fitted_attribute', 'fit on formed data depends on the content of the (unused) preprocessor table',
                              [pk, 'unreferenced_nan_rows']))
            evals += 2
        except Exception as ex:
            viol.append(V(site + '.fit', 'index_fit_raises', 'a %s preprocessor with NaN / inf in rows that no indicator refers to made fit / transform '
                          'raise %s: %s' % (pk, type(ex).__name__, str(ex)[:120]), [pk, 'unreferenced_nan_rows']))
    # ---- history: a nested-list preprocessor edited IN PLACE between two fits of the same estimator
    if pk == 'list':
        lst = table.tolist()
        e = zoo.make(name, ds, preprocessor=lst).fit(*index_args)
        B2 = table * np.linspace(2.0, 0.5, ds.d) - 0.5
        for r_, row in enumerate(B2.tolist()):
            lst[r_][:] = row
        try:
            e.fit(*index_args)
            ref = zoo.make(name, ds).fit(*((B2[np.asarray(index_args[0])],) + tuple(index_args[1:])))
            evals += 2
            sigs.add((name, pk, 'list_mutated_in_place'))
            if not same(e.components_, ref.components_):
                viol.append(V(site + '.fit', 'fitted_attribute', 'a nested-list preprocessor was edited in place; the refit on indices differs from a fit '
                              'on the points formed from its current content', [pk, 'mutated_in_place']))
        except Exception as ex:
            viol.append(V(site + '.fit', 'index_fit_raises', 'refit after editing the list preprocessor raised %s' % type(ex).__name__, [pk]))
    # ---- history: replace the array preprocessor of an already fitted object and use indices again
    if pk in ('ndarray', 'list'):
        B = table * np.linspace(0.5, 2.0, ds.d) + 0.25
        est_i = zoo.make(name, ds, preprocessor=pre).fit(*index_args)
        est_i.set_params(preprocessor=B if pk == 'ndarray' else B.tolist())
        formed_B = (B[np.asarray(index_args[0])],) + tuple(index_args[1:])
        try:
            est_i.fit(*index_args)
            est_fB = zoo.make(name, ds).fit(*formed_B)
            evals += 2
            sigs.add((name, pk, 'refit_after_set_params'))
            if not same(est_i.components_, est_fB.components_):
                viol.append(V(site + '.fit', 'fitted_attribute', 'after set_params(preprocessor=B) a refit on indices differs from '
                              'a fit on the points formed from B', [pk, 'replaced_preprocessor']))
            qi = np.array([[0, 1], [2, 3], [1, 1]])
            if not same(est_i.pair_distance(qi), est_fB.pair_distance(B[qi])):
                viol.append(V(site + '.pair_distance', 'output_differs', 'after set_params(preprocessor=B) + refit, pair_distance on '
                              'indices differs from the formed pairs of B', [pk, 'replaced_preprocessor']))
        except Exception as e:
            viol.append(V(site + '.fit', 'index_fit_raises', 'refit after replacing the preprocessor raised %s: %s'
                          % (type(e).__name__, str(e)[:150]), [pk, 'replaced_preprocessor']))
    # ---- deviation: an index outside an array-like preprocessor raises INSIDE the preprocessor -> PreprocessorError everywhere
    if pk in ('ndarray', 'list'):
        e_o = zoo.make(name, ds, preprocessor=pre).fit(*index_args)
        big = len(table) + 5
        meths = [('transform', (np.array([0, big]),)), ('pair_distance', (np.array([[0, 1], [big, 2]]),)), ('pair_score', (np.array([[0, big]]),))]
        if kind == 'pairs':
            meths += [('predict', (np.array([[0, big]]),)), ('decision_function', (np.array([[big, 1]]),)),
                      ('score', (np.array([[0, 1], [1, big]]), np.array([1, -1]))),
                      ('calibrate_threshold', (np.array([[0, 1], [big, 2]]), np.array([1, -1])))]
        elif kind in ('triplets', 'quads'):
            t = np.arange(3 if kind == 'triplets' else 4)[None].copy()
            t[0, -1] = big
            meths += [('predict', (t,)), ('decision_function', (t,)), ('score', (t,))]
        bad_train = np.array(index_args[0]).copy()
        bad_train[(0,) * bad_train.ndim] = big
        meths.append(('fit', (bad_train,) + tuple(index_args[1:])))
        for meth, a in meths:
            evals += 1
            target = zoo.make(name, ds, preprocessor=pre) if meth == 'fit' else e_o
            try:
                getattr(target, meth)(*a)
                viol.append(V(site + '.' + meth, 'preprocessor_error', 'index outside the %s preprocessor: %s returned normally' % (pk, meth), [pk, 'index_out_of_range']))
            except PreprocessorError:
                sigs.add((name, pk, 'index_out_of_range', meth))
            except Exception as e:
                viol.append(V(site + '.' + meth, 'preprocessor_error', 'index outside the %s preprocessor: %s raised %s instead of PreprocessorError'
                              % (pk, meth, type(e).__name__), [pk, 'index_out_of_range']))
    # ---- deviation: an exception inside the callable surfaces as PreprocessorError from every method
    for exc_type in ((KeyError, RuntimeError, FileNotFoundError, ZeroDivisionError) if pk == 'callable' else ()):
        def boom(ids, exc_type=exc_type):
            raise exc_type('boom')
        eb = zoo.make(name, ds, preprocessor=boom)
        try:
            eb.fit(*index_args)
            viol.append(V(site + '.fit', 'preprocessor_error', 'raising preprocessor: fit returned normally', ['raising', exc_type.__name__]))
        except PreprocessorError:
            pass
        except Exception as e:
            viol.append(V(site + '.fit', 'preprocessor_error', 'raising preprocessor: fit raised %s instead of PreprocessorError'
                          % type(e).__name__, ['raising', exc_type.__name__]))
        eb = zoo.make(name, ds, preprocessor=boom).fit(*formed_args)
        meths = [('transform', (np.arange(3),)), ('pair_distance', (np.array([[0, 1]]),)), ('pair_score', (np.array([[0, 1]]),))]
        if kind == 'pairs':
            meths += [('predict', (np.array([[0, 1]]),)), ('decision_function', (np.array([[0, 1]]),)),
                      ('score', (np.array([[0, 1], [1, 2]]), np.array([1, -1]))),
                      ('calibrate_threshold', (np.array([[0, 1], [1, 2]]), np.array([1, -1])))]
        elif kind in ('triplets', 'quads'):
            t = np.arange(3 if kind == 'triplets' else 4)[None]
            meths += [('predict', (t,)), ('decision_function', (t,)), ('score', (t,))]
        for meth, a in meths:
            evals += 1
            try:
                getattr(eb, meth)(*a)
                viol.append(V(site + '.' + meth, 'preprocessor_error', 'raising preprocessor: %s returned normally' % meth, ['raising', exc_type.__name__]))
            except PreprocessorError:
                sigs.add((name, 'raising', exc_type.__name__, meth))
            except Exception as e:
                viol.append(V(site + '.' + meth, 'preprocessor_error', 'raising preprocessor: %s raised %s instead of '
                              'PreprocessorError' % (meth, type(e).__name__), ['raising', exc_type.__name__]))
    return dict(evals=evals, sigs=sigs, viol=viol,
                sample={'estimator': name, 'dataset': dsn, 'preprocessor': pk, 'index_forms': INDEX_FORMS})
