"""C11 - ITML returns the optimum of its LogDet program: KKT certificate (DESIGN.md section 5, C11).

E4: every iteration budget max_iter = 1..K is one reachable solver state of the deterministic Bregman-projection sweep;
in each state the dual certificate (multipliers and slack-adjusted bounds, read from the solver frame at return) must
satisfy  M SPD, lambda >= 0,  M^-1 - M0^-1 = sum_i y_i lambda_i v_i v_i^T,  1/xi_i = 1/xi0 - y_i lambda_i / gamma,
and in the converged state complementary slackness.
"""
import warnings

import numpy as np

from mc import env  # noqa: F401
from mc import data, zoo
from mc.observe import LocalsAtReturn
from mc.refmodel import priors, itml_ref
import metric_learn as ml

PID = 'C11'
LEVEL = 'model_checking'
RULE = ('ITML x prior {identity, covariance, random, SPD array in C and in Fortran order} x gamma {0.1, 1, 10, 1000} x bounds {default, explicit floats, the '
        'same as integers, loose (prior already feasible)} x budgets max_iter = 1..K (K = 6 quick / 20 thorough) + a converged run '
        '(tol = 1e-12) x datasets, each also as a second fit of the same object; ITML_Supervised x prior x seeds; '
        'state = (configuration, budget); non-trivial = at least one multiplier is non-zero')
ASSUMPTIONS = ['Multipliers and slack-adjusted bounds are read from the solver frame (variables _lambda, pos_bhat, neg_bhat) with '
               'sys.setprofile; if they are not observable the certificate clauses are counted as degraded, never as violations.',
               'Identity residual tolerance 1e-8 x ||M^-1|| (measured <= 5e-12 on the unchanged tree) on states whose dual scale '
               'growth max(lambda) max||v||^2 / ||M0^-1|| is <= 1e6; complementary slackness tolerance 1e-6 relative at tol = 1e-12.']
BOUNDS = {'quick': dict(K=6, datasets=['S2', 'S3u', 'S5']), 'thorough': dict(K=20, datasets=list(data.THOROUGH))}
PRIORS = ['identity', 'covariance', 'random', 'array', 'array_F']      # array_F: the same SPD array, Fortran-ordered
GAMMAS = [0.1, 1.0, 10.0, 1000.0]
CODE = ml.itml._BaseITML._fit.__code__


def V(site, clause, msg, triggers=(), **detail):
    return dict(site=site, clause=clause, msg=msg, triggers=list(triggers), detail=detail)


def cases(tier, seed):
    b = BOUNDS[tier]
    out = []
    # (data in tiny units, e.g. S3u * 2^-30, is deliberately NOT in this alphabet: at that scale the pairs sit at the library's
    # own absolute "collapsed pair" threshold of 1e-9 and ITML's absolute 1e-9 bound floor, i.e. outside the well-formed pair
    # sets the property quantifies over; the initialiser clause for such data belongs to C20, which covers it)
    for dsn in b['datasets']:
        for pr in PRIORS:
            for gi, g in enumerate(GAMMAS):
                out.append(('ITML/%s/%s/gamma=%s' % (dsn, pr, g), ('itml', dsn, pr, g, b['K'], seed)))
            out.append(('ITML_Supervised/%s/%s' % (dsn, pr), ('sup', dsn, pr, b['K'], seed)))
    # features in badly matched units (first feature x 2^9, second x 2^-9: exact), with the prior that suits such data
    for g in (0.1, 1.0, 10.0):
        out.append(('ITML/S2*mixed_units/covariance/gamma=%s' % g, ('itml', 'S2*mixed_units', 'covariance', g, b['K'], seed)))
    # clearly more dissimilar than similar pairs (every second similar pair removed), and the converse
    # the same data in units 8192 times smaller (coordinates ~1e4, squared distances ~1e8, multipliers ~1e-8), explicit bounds
    for g in (1.0, 10.0):
        out.append(('ITML/S3u*2^13/identity/gamma=%s' % g, ('itml', 'S3u*2^13', 'identity', g, b['K'], seed)))
    for dsn in ('S3u*few_similar', 'S5*few_dissimilar'):
        for pr in ('identity', 'covariance'):
            for g in (1.0, 10.0):
                out.append(('ITML/%s/%s/gamma=%s' % (dsn, pr, g), ('itml', dsn, pr, g, b['K'], seed)))
    return out


def certificate(site, rec, M, M0inv, gamma, tr, viol, converged, stats):
    """Judge one solver state.  rec: locals captured at _fit's return."""
    d = M.shape[0]
    lam = np.linalg.eigvalsh((M + M.T) / 2)
    if not np.isfinite(M).all() or lam.min() <= -1e-10 * abs(lam.max()) or lam.max() <= 0 or np.abs(M - M.T).max() > 1e-9 * np.abs(M).max():
        viol.append(V(site, 'not_spd', 'learned matrix is not symmetric positive definite (lambda_min %.3g)' % lam.min(), tr))
        return False
    need = ('_lambda', 'pos_bhat', 'neg_bhat', 'pos_vv', 'neg_vv')
    if rec is None or any(k not in rec for k in need):
        stats['degraded_no_frame_access'] += 1
        return True
    L, pb, nb, pv, nv = (np.asarray(rec[k], dtype=float) for k in need)
    npos = len(pv)
    if L.min() < 0:
        viol.append(V(site, 'negative_multiplier', 'multiplier %.3g < 0' % L.min(), tr))
    S = np.zeros((d, d))
    for l, v in zip(L[:npos], pv):
        S += l * np.outer(v, v)
    for l, v in zip(L[npos:], nv):
        S -= l * np.outer(v, v)
    try:
        Minv = np.linalg.inv(M)
    except np.linalg.LinAlgError:
        viol.append(V(site, 'not_spd', 'learned matrix is numerically singular', tr))
        return False
    res = np.abs(Minv - M0inv - S).max() / max(np.abs(Minv).max(), np.abs(M0inv).max())
    # conditioning guard (G1b): when the multipliers dwarf the prior (dual scale growth > 1e6, e.g. the default bounds on
    # conflicting pair sets, where the matrix collapses to norm ~1e-9) the recursion's own cancellation error makes the
    # identity numerically meaningless; such states are counted, not judged, for the identity / slackness clauses
    allv = np.vstack([pv, nv])
    growth = np.abs(L).max() * (allv ** 2).sum(1).max() / np.abs(M0inv).max()
    well = growth <= 1e6
    stats['states_judged_for_identity' if well else 'states_ill_conditioned_not_judged'] += 1
    if well:
        stats['worst_identity_residual'] = max(stats['worst_identity_residual'], res)
    if well and not res <= 1e-8:
        viol.append(V(site, 'dual_identity', 'M^-1 - M0^-1 differs from sum_i y_i lambda_i v_i v_i^T by %.3g relative' % res, tr, residual=res))
    xi0 = np.asarray(rec['bounds'], dtype=float)
    with np.errstate(divide='ignore'):
        exp_p = 1.0 / xi0[0] - L[:npos] / gamma
        exp_n = 1.0 / xi0[1] + L[npos:] / gamma
    rp = np.abs(1.0 / pb - exp_p).max() / np.abs(exp_p).max() if npos else 0
    rn = np.abs(1.0 / nb - exp_n).max() / np.abs(exp_n).max() if len(nv) else 0
    stats['worst_slack_residual'] = max(stats['worst_slack_residual'], rp, rn)
    if max(rp, rn) > 1e-7:
        viol.append(V(site, 'slack_relation', '1/xi_i differs from 1/xi0 - y_i lambda_i / gamma by %.3g relative' % max(rp, rn), tr))
    if converged and well:
        stats['converged_states'] += 1
        wp = np.einsum('ij,jk,ik->i', pv, M, pv)
        wn = np.einsum('ij,jk,ik->i', nv, M, nv)
        worst = 0.0
        for i in range(npos):
            tight = abs(wp[i] - pb[i]) / pb[i]
            ok = (L[i] <= 1e-12 * max(L.max(), 1e-300) and wp[i] <= pb[i] * (1 + 1e-6)) or tight <= 1e-6
            worst = max(worst, 0 if ok else tight)
        for i in range(len(nv)):
            tight = abs(wn[i] - nb[i]) / nb[i]
            ok = (L[npos + i] <= 1e-12 * max(L.max(), 1e-300) and wn[i] >= nb[i] * (1 - 1e-6)) or tight <= 1e-6
            worst = max(worst, 0 if ok else tight)
        stats['worst_cs_gap'] = max(stats.get('worst_cs_gap', 0.0), worst)
        if worst > 0:
            viol.append(V(site, 'complementary_slackness', 'converged run: a constraint is neither inactive (lambda = 0, bound satisfied) nor '
                          'tight (relative gap %.3g)' % worst, tr, gap=worst))
    return True


def fit_observed(est, *a, **k):
    with LocalsAtReturn(CODE, ('_lambda', 'pos_bhat', 'neg_bhat', 'pos_vv', 'neg_vv', 'pairs', 'y')) as obs:
        est.fit(*a, **k)
    rec = obs.records[-1] if obs.records else None
    if rec is not None:
        rec['bounds'] = np.array(est.bounds_, dtype=float)
    return rec


def run_case(spec):
    warnings.simplefilter('ignore')
    viol, sigs = [], set()
    evals = states = trans = 0
    stats = {'degraded_no_frame_access': 0, 'worst_identity_residual': 0.0, 'worst_slack_residual': 0.0,
             'states_judged_for_identity': 0, 'states_ill_conditioned_not_judged': 0, 'converged_states': 0}
    kind, dsn, pr = spec[0], spec[1], spec[2]
    seed = spec[-1]
    if dsn.endswith('*few_similar') or dsn.endswith('*few_dissimilar'):
        base = data.dataset(dsn.split('*')[0])
        lab = 1 if dsn.endswith('*few_similar') else -1
        idx = np.where(base.ypairs == lab)[0]
        keep = np.setdiff1d(np.arange(len(base.ypairs)), idx[1::2][: max(0, len(idx) // 2)])
        keep = np.setdiff1d(keep, idx[2::4])          # about a quarter of that kind remains
        ds = data.scaled(base, 1.0)
        ds.pairs, ds.ypairs, ds.pairs_idx = base.pairs[keep], base.ypairs[keep], base.pairs_idx[keep]
    elif dsn.endswith('*2^13'):
        ds = data.scaled(data.dataset(dsn.split('*')[0]), 2.0 ** 13)
    elif dsn.endswith('*mixed_units'):
        base = data.dataset(dsn.split('*')[0])
        Dv = np.ones(base.d)
        Dv[0], Dv[1] = 2.0 ** 9, 2.0 ** -9
        ds = data.scaled(base, 1.0)
        ds.X = base.X * Dv
        ds.pairs = ds.X[base.pairs_idx]
    elif dsn.endswith('*2^-30'):          # the same well-conditioned data expressed in tiny units (exact scaling)
        ds = data.scaled(data.dataset(dsn.split('*')[0]), 2.0 ** -30)
    else:
        ds = data.dataset('R', seed) if dsn == 'R' else data.dataset(dsn)
    d = ds.d
    prv = data.spd(d) if pr == 'array' else (np.asfortranarray(data.spd(d)) if pr == 'array_F' else pr)
    if dsn.endswith('*2^-30') and pr == 'array':
        prv = data.spd(d) * 2.0 ** 60       # an SPD prior on the scale of the inverse covariance
    if kind == 'itml':
        gamma, K = spec[3], spec[4]
        P, y = ds.pairs.copy(), ds.ypairs.copy()
        M0, M0inv = priors.prior_matrix(prv, P, d, seed=1)
        sq = np.einsum('ij,jk,ik->i', P[:, 0] - P[:, 1], M0, P[:, 0] - P[:, 1])
        lo, hi = np.percentile(sq[y == 1], 30), np.percentile(sq[y == -1], 70)
        bsets = {'default': None, 'floats': np.array([lo, hi]), 'ints': np.array([max(1, int(round(lo))), max(2, int(round(hi)))]),
                 'ints_list': [max(1, int(round(lo))), max(2, int(round(hi)))], 'loose': np.array([sq.max() * 4, sq.min() / 4]),
                 # a zero upper bound is documented behaviour (replaced by 1e-9): integer and float forms must agree
                 'zero_float': np.array([0.0, hi]), 'zero_int': np.array([0, max(2, int(round(hi)))])}
        if dsn.endswith('*2^13'):
            bsets = {k_: v_ for k_, v_ in bsets.items() if k_ in ('floats', 'loose')}      # explicit bounds on the data's own scale
        for bname, bnd in bsets.items():
            if bname.startswith('zero') and gamma > 10:
                # a (near) zero upper bound enforced almost rigidly drives M towards a singular matrix (condition number
                # ~ 1e12): the rank-one updates then lose definiteness to rounding.  Outside the conditioning this check
                # judges; the integer / float agreement the zero forms exist for is covered at gamma <= 10.
                stats['skipped_zero_bound_with_rigid_slack'] = stats.get('skipped_zero_bound_with_rigid_slack', 0) + 1
                continue
            tr = [pr, 'gamma=%s' % gamma, 'bounds=' + bname]
            site = 'ITML.fit'
            budgets = [(mi, 1e-3) for mi in range(1, K + 1)] + [(3000, 1e-12)]
            for mi, tol in budgets:
                est = ml.ITML(prior=prv.copy() if isinstance(prv, np.ndarray) else prv, gamma=gamma, max_iter=mi, tol=tol, random_state=1)
                b_arg = None if bnd is None else (list(bnd) if isinstance(bnd, list) else bnd.copy())
                try:
                    rec = fit_observed(est, P.copy(), y.copy(), bounds=b_arg)
                except Exception as e:
                    # conditioning guard for the 'raises' clause too: if the state the documented recursion reaches with this
                    # budget is itself numerically singular (condition number > 1e10 - the default bounds on a conflicting
                    # pair set with a rigid slack drive M there), a definiteness test that fails by rounding is not judged
                    ill = False
                    if type(e).__name__ == 'NonPSDError' and hasattr(est, 'bounds_'):
                        bu, bl = (float(x) for x in est.bounds_)
                        pv_, nv_ = P[y == 1][:, 0] - P[y == 1][:, 1], P[y == -1][:, 0] - P[y == -1][:, 1]
                        Aref, lref = itml_ref.solve(M0, pv_, nv_, bu, bl, gamma, sweeps=mi, tol=tol)[:2]
                        ev = np.linalg.eigvalsh(Aref) if np.isfinite(Aref).all() else np.array([-1.0, 1.0])
                        growth = np.abs(lref).max() * (np.vstack([pv_, nv_]) ** 2).sum(1).max() / np.abs(M0inv).max()
                        ill = ev.min() <= 0 or ev.max() / ev.min() > 1e10 or growth > 1e6      # same growth bound as the identity clause
                    if ill:
                        stats['raises_in_numerically_singular_state_not_judged'] = stats.get('raises_in_numerically_singular_state_not_judged', 0) + 1
                    else:
                        viol.append(V(site, 'raises', 'fit raised %s: %s' % (type(e).__name__, str(e)[:120]), tr))
                    break
                evals += 1
                states += 1
                trans += 1
                M = est.get_mahalanobis_matrix()
                conv = mi == 3000 and est.n_iter_ < mi - 1
                certificate(site, rec, M, M0inv, gamma, tr + ['max_iter=%d' % mi], viol, conv, stats)
                if conv and np.isfinite(M).all():
                    # black-box oracle (no local variable of the implementation): the converged result is THE optimum
                    bu, bl = (float(x) for x in est.bounds_)
                    pv_, nv_ = P[y == 1][:, 0] - P[y == 1][:, 1], P[y == -1][:, 0] - P[y == -1][:, 1]
                    Aref, lref, pbr, nbr = itml_ref.solve(M0, pv_, nv_, bu, bl, gamma)
                    r_id, r_sl, gap, growth = itml_ref.certified(M0inv, Aref, lref, pbr, nbr, pv_, nv_, bu, bl, gamma)
                    if growth <= 1e6 and max(r_id, r_sl) <= 1e-8 and gap == 0:
                        dev = np.abs(M - Aref).max() / max(np.abs(Aref).max(), 1e-300)
                        stats['worst_vs_certified_optimum'] = max(stats.get('worst_vs_certified_optimum', 0.0), dev / 1e-6)
                        stats['converged_states_compared_with_certified_optimum'] = stats.get('converged_states_compared_with_certified_optimum', 0) + 1
                        if not dev <= 1e-6:
                            viol.append(V(site, 'not_the_optimum', 'converged run (n_iter_ = %d): M differs from the KKT-certified optimum of the documented '
                                          'program by %.3g relative' % (est.n_iter_, dev), tr + ['converged']))
                    else:
                        stats['reference_optimum_not_certified'] = stats.get('reference_optimum_not_certified', 0) + 1
                if bname == 'zero_int' and mi == 1:
                    ef = ml.ITML(prior=prv.copy() if isinstance(prv, np.ndarray) else prv, gamma=gamma, max_iter=1, tol=tol, random_state=1)
                    ef.fit(P.copy(), y.copy(), bounds=np.array([0.0, float(max(2, int(round(hi))))]))
                    if not np.array_equal(ef.get_mahalanobis_matrix(), M):
                        viol.append(V(site, 'integer_bounds_differ', 'bounds given as the integer array [0, %d] and as floats give different results'
                                      % max(2, int(round(hi))), tr))
                if bname == 'loose':
                    if np.abs(M - M0).max() > 1e-9 * np.abs(M0).max() or est.n_iter_ != 0:
                        viol.append(V(site, 'prior_not_returned', 'the prior satisfies all bounds but the result differs from it (%.3g, n_iter_=%d)'
                                      % (np.abs(M - M0).max(), est.n_iter_), tr))
                    break
                if rec is not None and '_lambda' in rec and np.any(np.asarray(rec['_lambda']) > 0):
                    sigs.add((dsn, pr, gamma, bname, mi))
                if mi == 2:       # the same state reached by a SECOND fit of the same object (non-initial start)
                    rec2 = fit_observed(est, P.copy(), y.copy(), bounds=None if bnd is None else (list(bnd) if isinstance(bnd, list) else bnd.copy()))
                    evals += 1
                    trans += 1
                    M2 = est.get_mahalanobis_matrix()
                    certificate(site, rec2, M2, M0inv, gamma, tr + ['max_iter=%d' % mi, 'refit'], viol, False, stats)
                    if not np.array_equal(M, M2):
                        viol.append(V(site, 'refit_differs', 'a second fit of the same object gives another matrix', tr + ['refit']))
        return dict(evals=evals, sigs=sigs, viol=viol, states=states, transitions=trans,
                    stats={k: v for k, v in stats.items() if not k.startswith('worst_')},
                    headroom={k: v for k, v in stats.items() if k.startswith('worst_')},
                    sample={'learner': 'ITML', 'dataset': dsn, 'prior': pr, 'gamma': gamma, 'bounds': list(bsets), 'budgets': '1..%d + converged' % K})
    K = spec[3]
    for s in (0, 1, 2):
        for mi, tol in [(1, 1e-3), (3, 1e-3), (3000, 1e-12)]:
            est = ml.ITML_Supervised(prior=prv, n_constraints=25, max_iter=mi, tol=tol, random_state=s)
            try:
                rec = fit_observed(est, ds.X.copy(), ds.y.copy())
            except Exception as e:
                viol.append(V('ITML_Supervised.fit', 'raises', '%s: %s' % (type(e).__name__, str(e)[:100]), [pr]))
                continue
            evals += 1
            states += 1
            trans += 1
            if rec is None or 'pairs' not in rec:
                stats['degraded_no_frame_access'] += 1
                continue
            M0, M0inv = priors.prior_matrix(prv, rec['pairs'], d, seed=s)
            conv = mi == 3000 and est.n_iter_ < mi - 1
            certificate('ITML_Supervised.fit', rec, est.get_mahalanobis_matrix(), M0inv, 1.0, [pr, 'supervised', 'max_iter=%d' % mi], viol, conv, stats)
            if np.any(np.asarray(rec['_lambda']) > 0):
                sigs.add(('sup', dsn, pr, s, mi))
    return dict(evals=evals, sigs=sigs, viol=viol, states=states, transitions=trans,
                    stats={k: v for k, v in stats.items() if not k.startswith('worst_')},
                    headroom={k: v for k, v in stats.items() if k.startswith('worst_')},
                sample={'learner': 'ITML_Supervised', 'dataset': dsn, 'prior': pr, 'seeds': [0, 1, 2]})
