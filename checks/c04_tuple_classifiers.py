"""C04 - tuple classifiers decide exactly by comparing learned distances (DESIGN.md section 5, C04).

E2 (pairs learners): breadth-first search over threshold histories - fit (default / with calibration_params),
calibrate_threshold (validation sets x strategies), set_threshold (values AT, just BELOW and 1e-7 below exact test
distances, -1, 0, +inf) - evaluating the whole test-pair alphabet (ties, zero distances, distance == threshold, index
form) in every state.   E1 (triplets / quadruplets): all 12^3 / 12^4 tuples over the query alphabet.
"""
import copy
import warnings
from fractions import Fraction

import numpy as np

from mc import env  # noqa: F401
from mc import data, zoo
from mc.bfs import Search
from mc.snapshot import digest

PID = 'C04'
LEVEL = 'model_checking'
RULE = ('pairs learners {ITML, MMC, SDML} x datasets: BFS over {3 fit variants, 4 calibrations, 12 set_threshold values} to '
        'depth 3 (quick) / 6 (thorough), each state judged on a 60+ test-pair alphabet given as formed pairs and as '
        'indices; SCML / LSML: every ordered triplet / quadruplet of the 12 query points incl. all tie patterns; '
        'distinct_nontrivial = distinct (event, resulting prediction vector) / distinct (learner, tie signature) outcomes')
ASSUMPTIONS = ['pair_distance is the ground truth for distances (bound to the exact metric by C01 / C02).',
               'AUC reference: exact pair counting with ties counted 1/2, compared within 1e-12.']
BOUNDS = {'quick': dict(depth=3, datasets=['S3u']), 'thorough': dict(depth=6, datasets=['S2u', 'S3u', 'S5', 'S8'])}


def V(site, clause, msg, triggers=(), **detail):
    return dict(site=site, clause=clause, msg=msg, triggers=list(triggers), detail=detail)

def batch_independent(est, T, dec, site, out, tr=(), sign_predict=True):
    """decision_function of one call on 2^13+1 / 2^14+1 / 2^12-1 tuples (the small batch tiled) = the values of the small batch
    (up to BLAS rounding: 1e-9 of the largest |decision| of the batch) and predict follows the sign there."""
    T = np.asarray(T)
    scale = max(float(np.abs(dec).max()), 1e-300)
    for size in (2 ** 13 + 1, 2 ** 14 + 1, 2 ** 12 - 1):
        reps = -(-size // len(T))
        big = np.tile(T, (reps,) + (1,) * (T.ndim - 1))[:size]
        db = est.decision_function(big)
        ix = np.arange(size) % len(T)
        bad = ~(np.abs(db - dec[ix]) <= 1e-9 * scale)
        if bad.any():
            k = int(np.argmax(bad))
            out.append(V(site, 'batch_size_dependent', 'decision_function of tuple %d differs when it is scored as row %d of one batch of %d '
                         'tuples (%r) instead of in a batch of %d (%r)' % (ix[k], k, size, db[k], len(T), dec[ix[k]]), list(tr) + ['batch=%d' % size]))
            return
        if not sign_predict:
            continue
        pb = est.predict(big)
        clear = np.abs(dec[ix]) > 1e-6 * scale
        if not np.array_equal(pb[clear], np.where(dec[ix][clear] > 0, 1, -1)):
            out.append(V(site, 'batch_size_dependent', 'predict on a batch of %d tuples does not follow the sign of the decision function' % size,
                         list(tr) + ['batch=%d' % size]))
            return


def auc_exact(score, y):
    pos = [s for s, l in zip(score, y) if l == 1]
    neg = [s for s, l in zip(score, y) if l == -1]
    num = Fraction(0)
    for p in pos:
        for n in neg:
            num += 1 if p > n else (Fraction(1, 2) if p == n else 0)
    return num / (len(pos) * len(neg))


def test_pairs(ds):
    Q = data.query_points(ds)[[0, 1, 2, 3, 7, 9, 11]]          # finite O(1..1e6) points incl. duplicate + last-bit neighbour
    X = ds.X
    pts = np.vstack([Q, X[:6], X[0] + 2 * (X[1] - X[0])])       # last: equidistant continuation (tie d(x1,x0)=d(x1,p))
    idx = [(i, j) for i in range(len(pts)) for j in range(len(pts)) if (i + 2 * j) % 3 != 1]
    idx = np.array(idx[:90])
    return pts, idx


class PW(object):        # world of a pairs learner
    pass


def pairs_search(name, ds, depth):
    pts, idx = test_pairs(ds)
    P = pts[idx]
    ytest = np.where((np.arange(len(idx)) * 7) % 5 < 2, 1, -1)
    fitted0 = zoo.fit(name, ds, preprocessor=pts)
    d0 = np.unique(fitted0.pair_distance(P))
    d0 = d0[d0 > 0]
    picks = [d0[0], d0[len(d0) // 2], d0[-1]]
    d32 = np.unique(fitted0.pair_distance(P.astype(np.float32)))
    thr = [-1.0, 0.0, np.inf, float(d32[len(d32) // 2])]        # incl. a threshold equal to a float32-pair distance
    for x in picks:
        thr += [float(x), float(np.nextafter(x, 0)), float(x * (1 - 1e-7))]
    vsets = [(ds.pairs[::2], ds.ypairs[::2]), (np.concatenate([P[:20], ds.pairs[1::2]]),
                                              np.concatenate([ytest[:20], ds.ypairs[1::2]]))]
    evs = (['fit', 'fit:f_beta', 'fit:max_tpr'] + ['cal%d:%s' % (i, s) for i in (0, 1) for s in ('accuracy', 'max_tnr')]
           + ['set:%r' % t for t in thr])
    cal_kw = {'f_beta': dict(strategy='f_beta', beta=2.0), 'max_tpr': dict(strategy='max_tpr', min_rate=0.5),
              'accuracy': dict(strategy='accuracy'), 'max_tnr': dict(strategy='max_tnr', min_rate=0.75)}
    _fit_cache = {}

    def build():
        w = PW()
        w.est = zoo.make(name, ds, preprocessor=pts)
        w.fitted = False
        return w

    def events(w):
        return evs if w.fitted else evs[:3]

    def apply(w, ev):
        warnings.simplefilter('ignore')
        out = {'exc': None}
        try:
            if ev.startswith('fit'):
                if ev not in _fit_cache:          # fits are deterministic (C17); cache the fitted object per fit variant
                    e = zoo.make(name, ds, preprocessor=pts)
                    kw = {} if ev == 'fit' else {'calibration_params': cal_kw[ev[4:]]}
                    e.fit(ds.pairs, ds.ypairs, **kw)
                    _fit_cache[ev] = e
                w.est = copy.deepcopy(_fit_cache[ev])
                w.fitted = True
            elif ev.startswith('cal'):
                i, s = int(ev[3]), ev[5:]
                w.est.calibrate_threshold(vsets[i][0], vsets[i][1], **cal_kw[s])
            else:
                t = float(ev[4:])
                r = w.est.set_threshold(t)
                out['set'] = t
                out['ret_self'] = r is w.est
        except Exception as e:
            out['exc'] = e
        return out

    def dig(w):
        return digest(vars(w.est), w.fitted)

    def invariant(w, ev, out, hist, before):
        v = []
        site = name + '.' + ev.split(':')[0]
        tr = [ev.split(':')[0]]
        if out['exc'] is not None:
            return [V(site, 'raises', '%s raised %s: %s' % (ev, type(out['exc']).__name__, out['exc']), tr)]
        est = w.est
        if 'set' in out:
            if est.threshold_ != out['set'] or not out['ret_self']:
                v.append(V(site, 'set_threshold', 'threshold_=%r after set_threshold(%r)' % (est.threshold_, out['set']), tr))
        t = est.threshold_
        d = est.pair_distance(P)
        pred = est.predict(P)
        dec = est.decision_function(P)
        exp = np.where(d <= t, 1, -1)
        if not np.array_equal(pred, exp):
            k = int(np.argmax(pred != exp))
            trg = tr + (['distance==threshold'] if d[k] == t else []) + (['near_threshold'] if abs(d[k] - t) <= 1e-5 * max(abs(t), 1e-300) + 1e-8 else [])
            v.append(V(site, 'predict', 'predict=%d for a pair at distance %r with threshold_=%r' % (pred[k], d[k], t), trg))
        if set(np.unique(pred).tolist()) - {-1, 1}:
            v.append(V(site, 'predict_values', 'predict returns values outside {-1,+1}', tr))
        if not np.array_equal(dec, -d):
            v.append(V(site, 'decision_function', 'decision_function is not exactly -pair_distance', tr))
        batch_independent(est, P, dec, site, v, tr, sign_predict=False)
        # single-precision test pairs: the same three identities, each within float32 inputs
        P32 = P.astype(np.float32)
        d32 = est.pair_distance(P32)
        if not np.array_equal(est.decision_function(P32), -d32):
            v.append(V(site, 'decision_function', 'float32 pairs: decision_function is not exactly -pair_distance', tr + ['float32']))
        if not np.array_equal(est.predict(P32), np.where(d32 <= t, 1, -1)):
            v.append(V(site, 'predict', 'float32 pairs: predict is not (pair_distance <= threshold_)', tr + ['float32']))
        # index form through the preprocessor: identical outputs
        if not (np.array_equal(est.predict(idx), pred) and np.array_equal(est.decision_function(idx), dec)):
            v.append(V(site, 'index_form', 'predict / decision_function differ between formed pairs and indices', tr))
        sc = est.score(P, ytest)
        ref = float(auc_exact(dec.tolist(), ytest.tolist()))
        if not abs(sc - ref) <= 1e-12:
            v.append(V(site, 'score', 'score=%r but the ROC-AUC of the decision function is %r' % (sc, ref), tr))
        if abs(est.score(idx, ytest) - sc) > 0:
            v.append(V(site, 'index_form', 'score differs between formed pairs and indices', tr))
        # monotone in the distance: along increasing distance predictions never go from -1 back to +1
        o = np.argsort(d, kind='stable')
        if np.any(np.diff(pred[o]) > 0):
            v.append(V(site, 'monotone', 'predictions are not monotone in the distance', tr))
        w.last_pred = tuple(pred.tolist())
        return v

    s = Search(build, events, apply, dig, invariant, depth, copy_state=copy.deepcopy)
    s.run()
    return s, len(P)


def cases(tier, seed):
    b = BOUNDS[tier]
    out = []
    for dsn in b['datasets'] + ['R']:
        for name in zoo.PAIRS:
            out.append(('%s/%s/thresholds' % (name, dsn), ('pairs', name, dsn, b['depth'], seed)))
        out.append(('SCML/%s/triplets' % dsn, ('triplets', 'SCML', dsn, seed)))
        out.append(('LSML/%s/quadruplets' % dsn, ('quads', 'LSML', dsn, seed)))
    for name in zoo.PAIRS + ['SCML', 'LSML']:
        out.append(('%s/S3u/replaced_preprocessor' % name, ('prehist', name, 'S3u', seed)))
    return out


def replaced_preprocessor_case(name, ds):
    """History: fit on indicators through array preprocessor X1, set_params(preprocessor=X2), fit again; tuples given as
    indicators now designate rows of X2, and every decision must be the one for those points."""
    viol, sigs = [], set()
    kind = zoo.KIND[name]
    X1 = ds.X.copy()
    X2 = ds.X * np.linspace(0.5, 2.0, ds.d) + 0.25
    est = zoo.make(name, ds, preprocessor=X1)
    ia = zoo.train_args(name, ds, 'index')
    est.fit(*ia)
    est.set_params(preprocessor=X2)
    est.fit(*ia)
    n = len(X2)
    k = {'pairs': 2, 'triplets': 3, 'quads': 4}[kind]
    I = np.array([[(3 * i + j * j + 1) % n for j in range(k)] for i in range(40)] + [[0] * k, [1, 0, 1, 0][:k]])
    evals = 0
    for step in ('second fit', 'set_threshold'):
        if step == 'set_threshold':
            if kind != 'pairs':
                break
            est.set_threshold(float(np.median(est.pair_distance(X2[I]))))
        for meth in ('decision_function', 'predict'):
            ri, rf = getattr(est, meth)(I), getattr(est, meth)(X2[I])
            evals += 2
            sigs.add((name, step, meth))
            if not np.array_equal(ri, rf):
                viol.append(V(name + '.' + meth, 'designated_points', 'after fit / set_params(preprocessor=X2) / fit, %s on indicator tuples is not '
                              '%s on the designated rows of X2 [%s]' % (meth, meth, step), ['replaced_preprocessor']))
        d_formed = est.pair_distance(X2[I][:, :2])
        if kind == 'pairs' and not np.array_equal(est.decision_function(I), -d_formed):
            viol.append(V(name + '.decision_function', 'designated_points', 'decision_function on indicator pairs is not the negated distance of the '
                          'designated rows of X2 [%s]' % step, ['replaced_preprocessor']))
    return dict(evals=evals, sigs=sigs, viol=viol, states=0, transitions=0,
                sample={'learner': name, 'dataset': ds.name, 'history': 'fit(idx; X1) -> set_params(preprocessor=X2) -> fit(idx) -> queries on indicators'})


def run_case(spec):
    kind, name, dsn = spec[0], spec[1], spec[2]
    warnings.simplefilter('ignore')
    ds = data.dataset('R', spec[-1]) if dsn == 'R' else data.dataset(dsn)
    if kind == 'prehist':
        return replaced_preprocessor_case(name, ds)
    if kind == 'pairs':
        s, ntest = pairs_search(name, ds, spec[3])
        viol = []
        for x in s.violations:
            if 'site' not in x:
                x = V(name, x['clause'], x['msg'], ['replay'], hist=x['hist'])
            else:
                x['detail']['history'] = x.pop('hist')
                x['msg'] += '  [history: %s]' % ' -> '.join(x['detail']['history'])
            viol.append(x)
        return dict(evals=s.transitions * ntest, sigs=s.outcomes, viol=viol, states=s.states, transitions=s.transitions,
                    sample={'learner': name, 'dataset': dsn, 'states': s.states, 'transitions': s.transitions,
                            'test_pairs_per_state': ntest, 'a_trace': s.sample_trace})
    # ---- triplets / quadruplets: all tuples over the query alphabet
    Q = data.query_points(ds)
    nq = len(Q)
    est = zoo.fit(name, ds, preprocessor=Q)
    viol, sigs = [], set()
    site = name
    if kind == 'triplets':
        I = np.array([(a, b, c) for a in range(nq) for b in range(nq) for c in range(nq)])
        T = Q[I]
        dab, dac = est.pair_distance(T[:, [0, 1]]), est.pair_distance(T[:, [0, 2]])
        dec = est.decision_function(T)
        pred = est.predict(T)
        if not np.array_equal(dec, dac - dab):
            viol.append(V(site, 'decision_function', 'decision_function is not exactly d(a,c) - d(a,b)'))
        exp = np.where(dab < dac, 1, -1)
        if not np.array_equal(pred, exp):
            k = int(np.argmax(pred != exp))
            viol.append(V(site, 'predict', 'predict=%r for triplet %s with d(a,b)=%r, d(a,c)=%r' % (pred[k], I[k].tolist(), dab[k], dac[k]),
                          ['tie'] if dab[k] == dac[k] else []))
        sc = est.score(T)
        if abs(sc - float(np.mean(exp == 1))) > 1e-12:
            viol.append(V(site, 'score', 'score=%r, fraction predicted +1 should be %r' % (sc, float(np.mean(exp == 1)))))
        batch_independent(est, T, dec, site, viol)
        sw = est.decision_function(T[:, [0, 2, 1]])
        if not np.array_equal(sw, -dec):
            viol.append(V(site, 'swap_negates', 'swapping b and c does not negate the decision function exactly'))
        if not (np.array_equal(est.decision_function(I), dec) and np.array_equal(est.predict(I), pred)
                and est.score(I) == sc):
            viol.append(V(site, 'index_form', 'outputs differ between formed triplets and indices'))
        ties = int(np.sum(dab == dac))
        sigs = {(name, dsn, 'ties=%d' % ties, 'pos=%d' % int((pred == 1).sum()))} | {(name, dsn, int(p), bool(t)) for p, t in zip(pred[:400], (dab == dac)[:400])}
        n = len(I)
    else:
        I = np.array([(a, b, c, e) for a in range(nq) for b in range(nq) for c in range(nq) for e in range(nq)])
        T = Q[I]
        dab, dcd = est.pair_distance(T[:, [0, 1]]), est.pair_distance(T[:, [2, 3]])
        dec = est.decision_function(T)
        pred = est.predict(T)
        if not np.array_equal(dec, dcd - dab):
            viol.append(V(site, 'decision_function', 'decision_function is not exactly d(c,d) - d(a,b)'))
        exp = np.sign(dcd - dab)
        if not np.array_equal(pred, exp):
            k = int(np.argmax(pred != exp))
            viol.append(V(site, 'predict', 'predict=%r for quadruplet %s with d(a,b)=%r, d(c,d)=%r' % (pred[k], I[k].tolist(), dab[k], dcd[k]),
                          ['tie'] if dab[k] == dcd[k] else []))
        batch_independent(est, T, dec, site, viol)
        sw = est.decision_function(T[:, [2, 3, 0, 1]])
        if not np.array_equal(sw, -dec):
            viol.append(V(site, 'swap_negates', 'swapping the two pairs does not negate the decision function exactly'))
        sub = I[::7]
        if not (np.array_equal(est.decision_function(sub), dec[::7]) and np.array_equal(est.predict(sub), pred[::7])):
            viol.append(V(site, 'index_form', 'outputs differ between formed quadruplets and indices'))
        sc = est.score(T)
        if abs(sc - (float(np.mean(exp)) / 2 + 0.5)) > 1e-12:
            viol.append(V(site, 'score', 'score=%r is not the mean prediction rescaled to [0,1]' % sc))
        ties = int(np.sum(dab == dcd))
        sigs = {(name, dsn, 'ties=%d' % ties)} | {(name, dsn, float(p)) for p in np.unique(pred)}
        n = len(I)
    return dict(evals=n, sigs=sigs, viol=viol, states=0, transitions=0,
                sample={'learner': name, 'dataset': dsn, 'tuples': n, 'exact_ties': ties})
