"""C08 - supervised variants equal the base learner run on label-derived constraints (DESIGN.md section 5, C08).

E1: {ITML, MMC, SDML, LSML, RCA, SCML}_Supervised x parameter alphabet x integer seeds x label layouts (unknown labels
at every kind of position, unbalanced classes, non-contiguous class names) x datasets.  Three oracles per case:
 (a) differential: the harness derives the constraints with Constraints(y) and the same random_state exactly as
     documented, fits the base algorithm with the same hyper-parameters and requires the same M (bit-identical);
 (b) what the learner actually consumed (formed tuples captured at the base _fit, mapped back to row indices) must be
     accepted by the harness's own label rules (shared with C07) - (a) alone is blind to defects inside Constraints;
 (c) metamorphic: moving an UNLABELED point leaves the learned metric bit-identical.
"""
import warnings

import numpy as np

from mc import env  # noqa: F401
from mc import data, zoo
import metric_learn as ml
from metric_learn.constraints import Constraints, wrap_pairs
from checks import c07_constraints as c07

PID = 'C08'
LEVEL = 'exploration'
RULE = ('6 supervised learners x parameters (n_constraints in {None,10,40}; n_chunks x chunk_size; k_genuine x k_impostor x basis; '
        'prior incl. random and an SPD array) x seeds {0,1,2} x label layouts {no unknown, unknown first / middle / last, two unknown, '
        'unbalanced, renamed non-contiguous classes without / with an unknown, two same-class points at the same position, two different negative markers, a class with two labeled members} x datasets; signature = (learner, parameters, layout, dataset, '
        '#constraints consumed); non-trivial = at least one constraint consumed')
ASSUMPTIONS = ['The default n_constraints (None) is compared only on layouts without unknown labels (the documented '
               '"20 * num_classes^2" does not say whether the unknown label counts as a class).',
               "For SCML_Supervised(basis='lda') the generated basis is captured and handed to the base learner as an array; "
               'oracle (c) is not applied to that configuration (the basis generation reads all points).']
LAYOUTS = ['none', 'first', 'middle', 'last', 'two', 'unbalanced', 'renamed', 'renamed_unknown', 'dup_rows', 'two_markers', 'tiny_class']
DUP_LEARNERS = ('ITML_Supervised', 'MMC_Supervised', 'SDML_Supervised', 'LSML_Supervised', 'RCA_Supervised')


def V(site, clause, msg, triggers=(), **detail):
    return dict(site=site, clause=clause, msg=msg, triggers=list(triggers), detail=detail)


def layout(ds, lay):
    y = ds.y.copy().astype(int)
    n = len(y)
    if lay == 'first':
        y[0] = -1
    elif lay == 'middle':
        y[n // 2] = -1
    elif lay == 'last':
        y[n - 1] = -1
    elif lay == 'two':
        y[1] = -1
        y[n // 2 + 1] = -1
    elif lay == 'unbalanced':
        # move two points of the last class to unknown: classes of clearly different sizes, unknowns interleaved
        idx = np.where(y == y.max())[0]
        if len(idx) > 4:
            y[idx[1]] = -1
    elif lay == 'two_markers':
        y[1] = -2                      # two different negative values: both mean "unlabeled"; the larger one is carried
        y[[n // 2, n // 2 + 1, n - 2]] = -1      # by enough points to form a chunk / pairs if it were taken for a class
    elif lay == 'tiny_class':
        idx = np.where(y == y.max())[0]          # the last class keeps exactly two labeled members (k_genuine = 2 must be
        y[idx[2:]] = -1                          # reduced for THIS class only)
    elif lay in ('renamed', 'renamed_unknown'):
        names = np.array([7, 3, 12, 5])          # class names that are neither contiguous nor ordered
        y = names[y]
        if lay == 'renamed_unknown':
            y[n // 3] = -1
    return y


def param_sets(name, ds, tier):
    d = ds.d
    if name in ('ITML_Supervised', 'MMC_Supervised', 'SDML_Supervised', 'LSML_Supervised'):
        ps = [{'n_constraints': None}, {'n_constraints': 10}, {'n_constraints': 40}]
        key = 'init' if name.startswith('MMC') else 'prior'
        ps.append({'n_constraints': 20, key: 'random'})
        ps.append({'n_constraints': 20, key: 'covariance'})
        ps.append({'n_constraints': 20, key: data.spd(d)})        # the SAME array object reaches the supervised and the base fit
        if name == 'LSML_Supervised':
            ps.append({'n_constraints': 12, 'weights': np.arange(1.0, 13.0)})
        return ps
    if name == 'RCA_Supervised':
        mx = int(sum(s // 2 for s in ds.sizes))
        return [{'n_chunks': mx - 2, 'chunk_size': 2}, {'n_chunks': max(2, int(sum(s // 3 for s in ds.sizes)) - 1), 'chunk_size': 3},
                {'n_chunks': mx - 2, 'chunk_size': 2, 'n_components': 1}]
    if name == 'SCML_Supervised':
        B = np.vstack([np.eye(d), np.round(np.random.RandomState(11).randn(2 * d, d) * 4) / 4])
        return [{'k_genuine': 1, 'k_impostor': 1, 'basis': 'triplet_diffs', 'n_basis': 3 * d},
                {'k_genuine': 2, 'k_impostor': 3, 'basis': 'lda'},
                {'k_genuine': 2, 'k_impostor': 2, 'basis': B, 'n_basis': None}]
    raise KeyError(name)


SUP = ['ITML_Supervised', 'MMC_Supervised', 'SDML_Supervised', 'LSML_Supervised', 'RCA_Supervised', 'SCML_Supervised']
BASE_FIT = {'ITML_Supervised': ml.itml._BaseITML, 'MMC_Supervised': ml.mmc._BaseMMC, 'SDML_Supervised': ml.sdml._BaseSDML,
            'LSML_Supervised': ml.lsml._BaseLSML, 'SCML_Supervised': ml.scml._BaseSCML}


def cases(tier, seed):
    out = []
    for dsn in data.names(tier, small=True):
        ds = data.dataset('R', seed) if dsn == 'R' else data.dataset(dsn)
        for name in SUP:
            for i, p in enumerate(param_sets(name, ds, tier)):
                for lay in LAYOUTS:
                    if lay == 'dup_rows' and name not in DUP_LEARNERS:
                        continue        # k-NN triplets with exact distance ties are C07's ambiguity domain
                    out.append(('%s/%s/p%d/%s' % (name, dsn, i, lay), (name, dsn, i, lay, seed)))
    # witness of known finding K3 (fixed input, independent of the run's seed): rotating dataset no. 1, first label unknown
    out.append(('SCML_Supervised/R(1)/p1/first', ('SCML_Supervised', 'R', 1, 'first', 1)))
    return out


def cost(spec):
    return {'MMC_Supervised': 4, 'ITML_Supervised': 3, 'SCML_Supervised': 3}.get(spec[0], 1)


class Capture(object):
    """Wrap the base-class _fit to record the formed tuples the learner consumes."""

    def __init__(self, cls_):
        self.cls, self.orig, self.seen = cls_, cls_._fit, []

    def __enter__(self):
        cap = self

        def _fit(self_, tuples, *a, **k):
            cap.seen.append((np.array(tuples, copy=True), a, k))
            return cap.orig(self_, tuples, *a, **k)
        self.cls._fit = _fit
        return self

    def __exit__(self, *exc):
        self.cls._fit = self.orig


def rows_to_index(X, T):
    """Map formed tuples back to row indices of X (rows of the dataset alphabet are distinct)."""
    key = {X[i].tobytes(): i for i in range(len(X))}
    flat = T.reshape(-1, T.shape[-1])
    return np.array([key[np.ascontiguousarray(r).tobytes()] for r in flat]).reshape(T.shape[:-1])


def run_case(spec):
    name, dsn, pi, lay, seed0 = spec
    warnings.simplefilter('ignore')
    ds = data.dataset('R', seed0) if dsn == 'R' else data.dataset(dsn)
    X = ds.X.copy()
    y = layout(ds, lay)
    dup = None
    if lay == 'dup_rows':
        # two labeled points of the same class at exactly the same position (different row indices): legal data; a
        # generated pair joining the two would be a collapsed pair, those (seed, parameter) combinations are skipped
        idx = np.where(y == y[0])[0]
        dup = (int(idx[0]), int(idx[-1]))
        X[dup[1]] = X[dup[0]]
    if lay in ('two_markers', 'tiny_class'):
        # these layouts take labels away: they are used only where the labeled part stays a well-formed training set
        # (two_markers: every class keeps >= 3 labeled members; tiny_class: >= 3 classes, the others keep >= 3)
        cnt = sorted(int((y == c_).sum()) for c_ in np.unique(y[y >= 0]))
        if (lay == 'two_markers' and cnt[0] < 3) or (lay == 'tiny_class' and (len(cnt) < 3 or cnt[1] < 3)):
            return dict(evals=0, sigs=[], viol=[], stats={'skipped_layout_leaves_too_few_labeled_points': 1})
    over = dict(param_sets(name, ds, 'quick')[pi])
    is_lda = isinstance(over.get('basis'), str) and over['basis'] == 'lda'
    viol, sigs = [], set()
    evals = 0
    if over.get('n_constraints', 0) is None and (y < 0).any():
        return dict(evals=0, sigs=[], viol=[], stats={'skipped_default_n_constraints_with_unknown': 1})
    base_name = name[:-len('_Supervised')]
    trig = c07.lab_triggers(y) + [lay]
    skipped = skipped_w = 0
    for seed in (0, 1, 2):
        p = zoo.base_params(name, ds)
        p.update(over)
        p['random_state'] = seed
        if name == 'RCA_Supervised':
            # a request above the number of chunks the labeled points can form is (rightly) refused with ValueError;
            # the layouts remove labels, so the request is capped by what THIS label vector allows
            mx_ = int(sum(int((y == c_).sum()) // p['chunk_size'] for c_ in np.unique(y[y >= 0])))
            p['n_chunks'] = max(1, min(p['n_chunks'], mx_))
        if name == 'LSML_Supervised' and p.get('weights') is not None:
            a_, b_, c_, d_ = Constraints(y).positive_negative_pairs(p['n_constraints'], same_length=True, random_state=seed)
            if len(a_) != len(p['weights']):
                skipped_w += 1          # fewer quadruplets can be formed than weights were supplied: not a valid call
                continue
        if dup is not None and name != 'RCA_Supervised':
            nc_ = p['n_constraints'] if p['n_constraints'] is not None else 20 * len(np.unique(y)) ** 2
            a_, b_, c_, d_ = Constraints(y).positive_negative_pairs(nc_, same_length=(name == 'LSML_Supervised'), random_state=seed)
            if ((X[a_] == X[b_]).all(axis=1)).any() or ((X[c_] == X[d_]).all(axis=1)).any():
                skipped += 1
                continue
        sup = zoo.cls(name)(**p)
        if seed == 1:
            # this object has been fitted before, on OTHER points of the same shape with the same labels: nothing derived from that
            # first training set (constraints, neighbour tables, generated bases) may reach the fit that is judged below
            try:
                with warnings.catch_warnings():
                    warnings.simplefilter('ignore')
                    sup.fit(X[::-1] * np.array([1.0, 2.0] + [0.5] * (X.shape[1] - 2))[:X.shape[1]] + 0.25, y)
            except Exception:
                sup = zoo.cls(name)(**p)
        cap = None
        lda_basis = []
        try:
            if name == 'RCA_Supervised':
                orig = ml.rca.RCA.fit
                seen = []

                def rfit(self_, Xa, ch):
                    seen.append(np.array(ch, copy=True))
                    return orig(self_, Xa, ch)
                ml.rca.RCA.fit = rfit
                try:
                    sup.fit(X, y)
                finally:
                    ml.rca.RCA.fit = orig
            else:
                with Capture(BASE_FIT[name]) as cap:
                    if is_lda:
                        og = ml.scml.SCML_Supervised._generate_bases_LDA

                        def gen(self_, Xa, ya):
                            b, nb = og(self_, Xa, ya)
                            lda_basis.append(b.copy())
                            return b, nb
                        ml.scml.SCML_Supervised._generate_bases_LDA = gen
                        try:
                            sup.fit(X, y)
                        finally:
                            ml.scml.SCML_Supervised._generate_bases_LDA = og
                    else:
                        sup.fit(X, y)
        except Exception as e:
            trig_e = list(trig)
            if name == 'SCML_Supervised' and is_lda and (y < 0).any() and isinstance(e, ValueError) and 'could not broadcast' in str(e):
                # the 'lda' basis generator counts the unlabeled marker as a class; a local LDA that then yields fewer directions
                # than min(n_classes - 1, n_features) does not fit its slot of the basis array (known finding K3)
                trig_e.append('lda_basis_slot_mismatch_with_unlabeled_marker')
            viol.append(V(name + '.fit', 'fit_raises', 'fit raised %s: %s [seed %d]' % (type(e).__name__, str(e)[:150], seed), trig_e))
            evals += 1
            continue
        evals += 1
        M = sup.get_mahalanobis_matrix()
        # ---------------- (a) differential against the documented construction
        # "the same hyper-parameters": everything the supervised object holds (its defaults differ from the base
        # class's, e.g. MMC_Supervised.tol = 1e-6 vs MMC.tol = 1e-3), minus the constraint-generation parameters
        base_keys = set(zoo.cls(base_name)().get_params())
        hp = {k: v for k, v in sup.get_params().items()
              if k in base_keys and not (isinstance(v, str) and v == 'deprecated')}
        C = Constraints(y)
        ncons = None
        try:
            if name in ('ITML_Supervised', 'MMC_Supervised', 'SDML_Supervised'):
                nc = p['n_constraints'] if p['n_constraints'] is not None else 20 * len(np.unique(y)) ** 2
                pn = C.positive_negative_pairs(nc, random_state=seed)
                pairs, yp = wrap_pairs(X, pn)
                base = zoo.cls(base_name)(**hp).fit(pairs, yp)
                ncons = len(yp)
            elif name == 'LSML_Supervised':
                nc = p['n_constraints'] if p['n_constraints'] is not None else 20 * len(np.unique(y)) ** 2
                pn = C.positive_negative_pairs(nc, same_length=True, random_state=seed)
                quads = X[np.column_stack(pn)]
                w = p.get('weights')
                if w is not None and len(w) != len(quads):
                    w = None if False else w
                base = zoo.cls(base_name)(**hp).fit(quads, weights=w)
                ncons = len(quads)
            elif name == 'RCA_Supervised':
                ch = C.chunks(n_chunks=p['n_chunks'], chunk_size=p['chunk_size'], random_state=seed)
                base = ml.RCA(n_components=p.get('n_components'), preprocessor=None).fit(X, ch)
                ncons = int((ch >= 0).sum())
            else:
                trip = C.generate_knntriplets(X, p['k_genuine'], p['k_impostor'])
                hb = dict(hp)
                if is_lda:
                    hb['basis'] = lda_basis[0]
                    hb['n_basis'] = None
                base = ml.SCML(**hb).fit(X[trip])
                ncons = len(trip)
            Mb = base.get_mahalanobis_matrix()
            if M.shape != Mb.shape or not np.array_equal(M, Mb):
                dev = np.abs(M - Mb).max() if M.shape == Mb.shape else np.nan
                viol.append(V(name + '.fit', 'differs_from_base', 'metric differs from %s fitted on the constraints Constraints(y) derives '
                              'with the same random_state (max abs diff %.3g) [seed %d, %s]' % (base_name, dev, seed, lay), trig))
        except Exception as e:
            viol.append(V(name + '.fit', 'base_raises', 'the documented construction raised %s: %s although the supervised fit succeeded'
                          % (type(e).__name__, str(e)[:120]), trig))
        # ---------------- (b) what was actually consumed respects the labels (harness rules, shared with C07)
        if name == 'RCA_Supervised':
            ch = seen[0]
            for x in c07.check_chunks_out(y, ch, p['n_chunks'], p['chunk_size'], site=name + '.consumed_chunks'):
                viol.append(x)
        elif dup is not None:
            pass        # rows -> indices is not a function when two rows coincide; oracles (a) and (c) only
        else:
            T = cap.seen[0][0]
            try:
                I = rows_to_index(X, T)
            except KeyError:
                viol.append(V(name + '.consumed', 'foreign_rows', 'the learner consumed points that are not rows of X', trig))
                I = None
            if I is not None:
                if name in ('ITML_Supervised', 'MMC_Supervised', 'SDML_Supervised'):
                    yp = np.asarray(cap.seen[0][1][0] if cap.seen[0][1] else cap.seen[0][2]['y'])
                    pos, neg = I[yp == 1], I[yp == -1]
                    out4 = (pos[:, 0], pos[:, 1], neg[:, 0], neg[:, 1])
                    nc = p['n_constraints'] if p['n_constraints'] is not None else 20 * len(np.unique(y)) ** 2
                    vs = c07.check_pairs_out(y, out4, nc, False, None, site=name + '.consumed_pairs')
                elif name == 'LSML_Supervised':
                    out4 = (I[:, 0], I[:, 1], I[:, 2], I[:, 3])
                    nc = p['n_constraints'] if p['n_constraints'] is not None else 20 * len(np.unique(y)) ** 2
                    vs = c07.check_pairs_out(y, out4, nc, True, None, site=name + '.consumed_quadruplets')
                else:
                    vs = c07.check_triplets_out(y, X, I, p['k_genuine'], p['k_impostor'], site=name + '.consumed_triplets')
                for x in vs:
                    x['msg'] += ' [seed %d, %s]' % (seed, lay)
                    viol.append(x)
        # ---------------- (c) moving an unlabeled point changes nothing
        unk = np.where(y < 0)[0]
        if len(unk) and not is_lda:
            X2 = X.copy()
            X2[unk[0]] = X2[unk[0]] * 1.5 + 0.375
            sup2 = zoo.cls(name)(**p).fit(X2, y)
            evals += 1
            if not np.array_equal(sup2.get_mahalanobis_matrix(), M):
                viol.append(V(name + '.fit', 'unlabeled_point_matters', 'moving an unlabeled point changed the learned metric (max abs diff '
                              '%.3g) [seed %d, %s]' % (np.abs(sup2.get_mahalanobis_matrix() - M).max(), seed, lay), trig))
        if ncons:
            sigs.add((name, pi, lay, dsn, seed, ncons))
    return dict(evals=evals, sigs=sigs, viol=viol, stats={'skipped_collapsed_pair_generated': skipped, 'skipped_weights_longer_than_constraints': skipped_w},
                sample={'learner': name, 'dataset': dsn, 'parameters': {k: (v if not isinstance(v, np.ndarray) else 'array%s' % (v.shape,))
                                                                       for k, v in over.items()}, 'layout': lay, 'labels': y.tolist()})
