"""C10 - gradient-based learners optimise the objective they document (DESIGN.md section 5, C10).

E1 + E4: NCA, MLKR, LMNN x init options x n_components x hyper-parameters x datasets.  The state space is the set of
transformations the optimiser actually visits (every evaluation is recorded through a wrapped `minimize` /
`_loss_grad`) plus a probe set (initial point, its multiples x1/2, x2, x8, x32, a rank-deficient L, a random L); at
every such L the implementation's value and gradient must equal the reference objective and its analytic gradient.
"""
import contextlib
import io
import warnings

import numpy as np

from mc import env  # noqa: F401
from mc import data, zoo
from mc.observe import Patched
from mc.refmodel import objectives as ref
import metric_learn as ml

PID = 'C10'
LEVEL = 'model_checking'
RULE = ('NCA / MLKR: init {auto, pca, lda (NCA), identity, random, array} x n_components {1, d-1, d} x datasets; LMNN: init x n_components x '
        'n_neighbors {1,2,3} x regularization {0.1, 0.5, 0.9} x datasets; states = transformations evaluated by the optimiser (all recorded) '
        '+ 7 probe transformations per run; transitions = optimiser steps; signature = (learner, options, dataset, #evaluations); zero-iteration '
        'runs (tol >= 1e3, LMNN max_iter <= 2) must return the initial transformation bit for bit')
ASSUMPTIONS = ['Reference objectives / analytic gradients in mc/refmodel/objectives.py, cross-checked against central differences on the '
               'probe set in this check; value tolerance 1e-9 relative, gradient tolerance 1e-7 relative to the sum of the absolute contributions to each gradient entry.',
               'LMNN: an evaluation whose smallest hinge margin |1 + d_ij - d_il| is under 1e-9 is counted ambiguous.',
               "scipy's L-BFGS-B performs one iteration even with maxiter=0, so zero iterations are forced with a huge tol (nit == 0 is asserted "
               'before judging).']


def V(site, clause, msg, triggers=(), **detail):
    return dict(site=site, clause=clause, msg=msg, triggers=list(triggers), detail=detail)


def cases(tier, seed):
    out = []
    dss = ['S2u', 'S3u', 'S5'] if tier == 'quick' else data.THOROUGH
    for dsn in dss:
        ds = data.dataset('R', seed) if dsn == 'R' else data.dataset(dsn)
        d = ds.d
        for name in ('NCA', 'MLKR'):
            for lab, o in zoo.option_configs(name, ds, 'quick'):
                if o['n_components'] in (1, d - 1, d, None):
                    out.append(('%s/%s/%s' % (name, dsn, lab), (name, dsn, lab, o, seed)))
                    if name == 'NCA' and o['n_components'] is None and not isinstance(o['init'], str) or (name == 'NCA' and o['n_components'] is None and o['init'] in ('identity', 'pca')):
                        out.append(('NCA/%s/%s,singleton_class' % (dsn, lab), (name, dsn, lab + ',singleton_class', o, seed)))
        for lab, o in zoo.option_configs('LMNN', ds, 'quick'):
            if o['n_components'] in (1, d, None) or tier == 'thorough':
                for k in (1, 2, 3):
                    for reg in ((0.5,) if (k != 2 and tier == 'quick') else (0.1, 0.5, 0.9)):
                        out.append(('LMNN/%s/%s/k=%d/reg=%g' % (dsn, lab, k, reg), ('LMNN', dsn, lab, dict(o, n_neighbors=k, regularization=reg), seed)))
                if o['n_components'] is None and isinstance(o.get('init'), str) and o.get('init') in ('identity', 'auto'):
                    # a class containing two identical rows (a repeated measurement): nobody may be their own target neighbour
                    for k in (1, 2):
                        out.append(('LMNN/%s/%s,dup_rows/k=%d/reg=0.5' % (dsn, lab, k), ('LMNN', dsn, lab + ',dup_rows', dict(o, n_neighbors=k, regularization=0.5), seed)))
    # more samples than any block size a distance computation could use (1 030 > 1 024)
    out.append(('MLKR/1030_samples/init=identity', ('MLKR_big', 'N1030', 'init=identity', {}, seed)))
    return out


def spec_to_json(spec):
    return [spec[0], spec[1], spec[2], {k: (v.tolist() if isinstance(v, np.ndarray) else v) for k, v in spec[3].items()}, spec[4]]


def spec_from_json(j):
    return (j[0], j[1], j[2], zoo.retype(j[2], {k: (np.array(v) if isinstance(v, list) else v) for k, v in j[3].items()}), j[4])


def probes(L0, d):
    k = L0.shape[0]
    rs = np.random.RandomState(k * 31 + d)
    low = L0.copy()
    low[-1] = low[0] * 2.0 if k > 1 else low[-1] * 0          # rank-deficient (or zero for k = 1)
    return [('init', L0), ('init/2', L0 / 2), ('initx2', L0 * 2), ('initx8', L0 * 8), ('initx32', L0 * 32), ('rank_deficient', low),
            ('random', np.round(rs.randn(k, d) * 4) / 4)]


def close(a, b, rtol, atol):
    return abs(a - b) <= atol + rtol * max(abs(a), abs(b))


def mlkr_ref_vec(L, X, y):
    """leave-one-out kernel-regression cost and gradient, row by row (O(n^2 d) memory-light form of ref.mlkr)."""
    Z = X.dot(L.T)
    n, d = X.shape
    cost = 0.0
    G = np.zeros((d, d))
    A = np.zeros((d, d))
    for i in range(n):
        Di = ((Z - Z[i]) ** 2).sum(1)
        Di[i] = np.inf
        e = np.exp(-(Di - Di.min()))
        S = e / e.sum()
        yh = S.dot(y)
        cost += (yh - y[i]) ** 2
        W = (yh - y[i]) * (yh - y) * S
        Xi = X[i] - X
        G += (Xi * W[:, None]).T.dot(Xi)
        A += (np.abs(Xi) * np.abs(W)[:, None]).T.dot(np.abs(Xi))
    return float(cost), 4 * L.dot(G), 4 * np.abs(L).dot(A)


def run_mlkr_big():
    rs = np.random.RandomState(10300)
    n, d = 1030, 3
    X = np.round(rs.randn(n, d) * 4) / 4
    y = X.dot([1.0, -0.5, 0.25]) + np.round(rs.randn(n) * 8) / 32
    site, tr = 'MLKR.fit', ['1030_samples']
    viol, sigs = [], set()
    head = {'value': 0.0, 'gradient': 0.0}
    rec = {}
    real_min = ml.mlkr.minimize

    def spy_min(fun, x0, args, *a, **kw):
        rec['x0'], rec['fun'], rec['args'], rec['evals'] = np.array(x0, copy=True), fun, args, []

        def wrapped(x, *aa):
            v, g = fun(x, *aa)
            rec['evals'].append((np.array(x, copy=True), float(v), np.array(g, copy=True)))
            return v, g
        return real_min(wrapped, x0, args, *a, **kw)
    est = ml.MLKR(init='identity', max_iter=3)
    with Patched(ml.mlkr, 'minimize', spy_min):
        try:
            est.fit(X.copy(), y.copy())
        except Exception as e:
            return dict(evals=1, sigs=[], viol=[V(site, 'raises', 'fit raised %s: %s' % (type(e).__name__, str(e)[:120]), tr)])
    # self-test of the row-wise reference against the plain-loop reference on a small prefix
    fs, gs_, _ = ref.mlkr(np.eye(d), X[:40], y[:40])
    fv, gv, _ = mlkr_ref_vec(np.eye(d), X[:40], y[:40])
    if abs(fs - fv) > 1e-10 * abs(fs) or np.abs(gs_ - gv).max() > 1e-9 * np.abs(gs_).max():
        return dict(internal_error='row-wise MLKR reference disagrees with the plain-loop reference')
    L0 = rec['x0'].reshape(d, d)
    pts = [('visited', x.reshape(d, d), v, g.reshape(d, d)) for x, v, g in rec['evals'][:4]]
    rr = np.random.RandomState(7)
    for pn, Lp in (('init/2', L0 / 2), ('random', np.round(rr.randn(d, d) * 4) / 4), ('random_2_rows', np.round(rr.randn(2, d) * 4) / 4)):
        v, g = rec['fun'](Lp.ravel().copy(), *rec['args'])
        pts.append((pn, Lp, float(v), np.array(g).reshape(Lp.shape)))
    evals = 0
    for pn, Lp, v, g in pts:
        fr, gr, ga = mlkr_ref_vec(Lp, X, y)
        evals += 1
        rv = abs(v - fr) / max(abs(fr), 1e-12)
        rg = (np.abs(g - gr) / (ga + 1e-300)).max() if np.isfinite(g).all() else np.inf
        head['value'] = max(head['value'], rv / 1e-9)
        head['gradient'] = max(head['gradient'], rg / 1e-7)
        if not np.isfinite(v) or rv > 1e-9:
            viol.append(V(site, 'objective_value', 'with 1030 samples, at a %s transformation the optimiser is given %.12g, the documented '
                          'leave-one-out objective is %.12g' % (pn, v, fr), tr + [pn]))
        if rg > 1e-7:
            viol.append(V(site, 'gradient', 'with 1030 samples, at a %s transformation the gradient differs from the derivative of the documented '
                          'objective by %.3g relative' % (pn, rg), tr + [pn]))
    f0, f1 = mlkr_ref_vec(L0, X, y)[0], mlkr_ref_vec(est.components_, X, y)[0]
    if f1 > f0 + 1e-9 * (1 + abs(f0)):
        viol.append(V(site, 'worse_than_init', 'documented objective at components_ (%.10g) is worse than at the initial transformation (%.10g)' % (f1, f0), tr))
    sigs.add(('MLKR', 'N1030', len(rec['evals'])))
    return dict(evals=evals, sigs=sigs, viol=viol, states=evals, transitions=len(rec['evals']), headroom=head,
                sample={'learner': 'MLKR', 'samples': n, 'features': d, 'optimiser_evaluations': len(rec['evals']), 'probes': 3})


def run_case(spec):
    warnings.simplefilter('ignore')
    name, dsn, lab, over, seed = spec
    if name == 'MLKR_big':
        return run_mlkr_big()
    ds = data.dataset('R', seed) if dsn == 'R' else data.dataset(dsn)
    X, d = ds.X, ds.d
    if 'dup_rows' in lab:
        X = X.copy()
        for c in np.unique(ds.y):
            m = np.where(ds.y == c)[0]
            X[m[1]] = X[m[0]]
            if len(m) > 4:
                X[m[-1]] = X[m[2]]
    viol, sigs = [], set()
    evals = states = trans = amb = 0
    head = {'value': 0.0, 'gradient': 0.0, 'reference_vs_central_differences': 0.0}
    tr = [lab]
    if name in ('NCA', 'MLKR'):
        mod = ml.nca if name == 'NCA' else ml.mlkr
        y = ds.y if name == 'NCA' else ds.yreg
        if name == 'NCA' and 'singleton' in lab:
            y = ds.y.copy()
            y[len(y) // 2] = y.max() + 1          # one class with exactly one member (it is still everybody's candidate neighbour)
        site = name + '.fit'
        rec = {}
        real_min = mod.minimize

        def spy_min(*a, **kw):
            # NCA calls minimize(**params); MLKR calls minimize(fun, x0, args, ...)
            if a:
                fun, x0, args = a[0], a[1], a[2]
                a = a[3:]
            else:
                fun, x0, args = kw.pop('fun'), kw.pop('x0'), kw.pop('args')
            rec['x0'] = np.array(x0, copy=True)
            rec['fun'], rec['args'] = fun, args
            rec['evals'] = []

            def wrapped(x, *aa):
                v, g = fun(x, *aa)
                rec['evals'].append((np.array(x, copy=True), float(v), np.array(g, copy=True)))
                return v, g
            res = real_min(wrapped, x0, args, *a, **kw)
            rec['nit'] = res.nit
            return res
        o = dict(over)
        est = zoo.make(name, ds, **dict(o, max_iter=15))
        with Patched(mod, 'minimize', spy_min):
            try:
                est.fit(X.copy(), y.copy())
            except Exception as e:
                return dict(evals=1, sigs=[], viol=[V(site, 'raises', 'fit raised %s: %s' % (type(e).__name__, str(e)[:120]), tr)])
        k = est.components_.shape[0]
        # the optimiser starts from the documented initialisation (options whose value is known in closed form)
        ini = over.get('init')
        x0doc = None
        if isinstance(ini, np.ndarray):
            x0doc = ini
        elif ini == 'identity':
            x0doc = np.eye(k, d)
        elif ini == 'random':
            x0doc = np.random.RandomState(over.get('random_state')).randn(k, d)
        if x0doc is not None and not np.array_equal(rec['x0'].reshape(k, d), x0doc):
            viol.append(V(site, 'initial_point', 'the optimiser does not start from the documented %s initialisation'
                          % (ini if isinstance(ini, str) else 'array'), tr))
        sign = -1.0 if name == 'NCA' else 1.0           # NCA hands -f to the minimiser
        reff = ref.nca if name == 'NCA' else ref.mlkr
        L0 = rec['x0'].reshape(k, d)
        points = [('visited', x.reshape(k, d), v, g.reshape(k, d)) for x, v, g in rec['evals']]
        for pn, Lp in probes(L0, d):
            v, g = rec['fun'](Lp.ravel().copy(), *rec['args'])
            points.append((pn, Lp, float(v), np.array(g).reshape(k, d)))
        for pn, Lp, v, g in points:
            fr, gr, gs = reff(Lp, X, y)
            evals += 1
            states += 1
            rv = abs(v - sign * fr) / max(abs(fr), 1e-12)
            gn = max(np.abs(gr).max(), 1e-300)
            # error relative to the sum of the absolute contributions (the gradient is a cancelling sum near saturation)
            # absolute floor: magnitude the gradient has when nothing is saturated, times 1e-5 of the tolerance (the softmax of
            # a saturated row carries rounding residue of order eps that no formulation reproduces bit for bit)
            yy = (np.abs(y - np.mean(y)).max() ** 2) if name == 'MLKR' else 1.0
            B = 4 * np.abs(Lp).max() * len(X) * ((X[:, None] - X[None]) ** 2).sum(-1).max() * yy
            rg = (np.abs(g - sign * gr) / (gs + 1e-5 * B + 1e-300)).max() if np.isfinite(g).all() else np.inf
            head['value'] = max(head['value'], rv / 1e-9)
            head['gradient'] = max(head['gradient'], rg / 1e-7)
            if not np.isfinite(v) or rv > 1e-9:
                viol.append(V(site, 'objective_value', 'at a %s transformation the optimiser is given %.12g, the documented objective is %.12g'
                              % (pn, v, sign * fr), tr + [pn]))
            if not np.isfinite(g).all() or rg > 1e-7:
                viol.append(V(site, 'gradient', 'at a %s transformation the gradient handed to the optimiser differs from the derivative of the '
                              'documented objective by %.3g relative' % (pn, rg), tr + [pn]))
            if pn in ('init', 'random'):        # validate the reference gradient itself by central differences
                h = 1e-6
                num = np.zeros_like(Lp)
                for a in range(k):
                    for b in range(d):
                        E = np.zeros_like(Lp)
                        E[a, b] = h
                        num[a, b] = (reff(Lp + E, X, y)[0] - reff(Lp - E, X, y)[0]) / (2 * h)
                cd = (np.abs(num - gr) / (gs + 1e-5 * B + 1e-300)).max()
                head['reference_vs_central_differences'] = max(head['reference_vs_central_differences'], cd / 1e-5)
                if cd > 1e-5:
                    return dict(internal_error='reference gradient disagrees with central differences (%.3g) for %s %s' % (cd, name, lab))
        trans += rec['nit']
        # trajectory: the returned transformation is no worse than the initial one
        f0, f1 = reff(L0, X, y)[0], reff(est.components_.reshape(k, d), X, y)[0]
        if sign * f1 > sign * f0 + 1e-9 * (1 + abs(f0)):
            viol.append(V(site, 'worse_than_init', 'documented objective at components_ (%.10g) is worse than at the initial transformation '
                          '(%.10g)' % (f1, f0), tr))
        # zero iterations: documented initialisation returned bit for bit
        rec0 = dict(rec)
        for big in (1e3, 1e10):
            e0 = zoo.make(name, ds, **dict(o, tol=big))
            with Patched(mod, 'minimize', spy_min):
                e0.fit(X.copy(), y.copy())
            evals += 1
            if rec['nit'] == 0:
                if not np.array_equal(e0.components_.ravel(), rec['x0']):
                    viol.append(V(site, 'zero_iterations', 'with zero optimiser iterations (tol=%g) components_ differs from the initial '
                                  'transformation' % big, tr))
                if not np.array_equal(rec['x0'], rec0['x0']):
                    viol.append(V(site, 'init_depends_on_tol', 'the initial transformation depends on tol', tr))
                sigs.add((name, dsn, lab, 'zero_iter'))
        sigs.add((name, dsn, lab, len(rec0['evals'])))
        return dict(evals=evals, sigs=sigs, viol=viol, states=states, transitions=trans, headroom=head,
                    sample={'learner': name, 'dataset': dsn, 'options': lab, 'optimiser_evaluations': len(rec0['evals']), 'probes': 7})

    # ------------------------------------------------------------------ LMNN
    site = 'LMNN.fit'
    y = ds.y
    kk, reg = over['n_neighbors'], over['regularization']
    recs = []
    orig = ml.lmnn.LMNN._loss_grad

    def spy(self_, Xa, L, dfG, k, reg_, target_neighbors, label_inds):
        L_in = np.array(L, copy=True)
        G, obj, act = orig(self_, Xa, L, dfG, k, reg_, target_neighbors, label_inds)
        recs.append((L_in, np.array(G, copy=True), float(obj), np.array(target_neighbors, copy=True), np.array(label_inds, copy=True)))
        return G, obj, act
    est = zoo.make('LMNN', ds, **dict(over, max_iter=25, learn_rate=1e-4, verbose=True))
    y_first = y
    y_other = np.roll(y, 3)            # the same points with OTHER labels, fitted on the SAME object afterwards
    # third fit: a step size far above the stable one (the backtracking must halve it > 20 times before a step is accepted)
    # fourth fit: the stopping test may fire at once (min_iter=0, huge convergence_tol) while the first trial step overshoots
    for fit_no, (y, lr, extra) in enumerate(((y_first, 1e-4, {}), (y_other, 1e-4, {}), (y_first, 1e6, {}),
                                            (y_first, 1e6, {'min_iter': 0, 'convergence_tol': 1e30}))):
        tr = [lab] + [[], ['refit_other_labels'], ['learn_rate=1e6'], ['learn_rate=1e6', 'min_iter=0', 'convergence_tol=1e30']][fit_no]
        est.set_params(learn_rate=lr, **dict({'min_iter': 50, 'convergence_tol': 0.001}, **extra))
        del recs[:]
        if np.bincount(np.unique(y, return_inverse=True)[1]).min() <= kk:
            continue
        buf = io.StringIO()
        with Patched(ml.lmnn.LMNN, '_loss_grad', spy), contextlib.redirect_stdout(buf):
            try:
                est.fit(X.copy(), y.copy())
            except Exception as e:
                return dict(evals=1, sigs=[], viol=[V(site, 'raises', 'fit raised %s: %s' % (type(e).__name__, str(e)[:120]), tr)])
        k = est.components_.shape[0]
        tn = recs[0][3]
        valid = ref.lmnn_targets(X, y, kk)
        for i in range(len(X)):
            s = set(tn[i].tolist())
            if len(s) != kk or not (valid[i][0] <= s <= valid[i][1]):
                viol.append(V(site, 'target_neighbours', 'target neighbours of point %d are not its %d nearest same-class Euclidean neighbours' % (i, kk), tr))
                break
        targets = [tn[i].tolist() for i in range(len(X))]
        L0 = recs[0][0]
        if fit_no == 0:
            L0_first, n_first = L0, len(recs)
        pts = [('visited', L, G, o) for L, G, o, _, _ in recs]
        # probe set through the implementation's own evaluation function
        dfG = ml.lmnn._sum_outer_products(X, tn.flatten(), np.repeat(np.arange(len(X)), kk))
        for pn, Lp in probes(L0, d):
            G, o, _ = orig(est, X, Lp.copy(), dfG, kk, reg, tn, recs[0][4])
            pts.append((pn, Lp, np.array(G), float(o)))
        for pn, Lp, G, o in pts:
            fr, gr, margin, gs = ref.lmnn(Lp, X, y, targets, reg)
            evals += 1
            states += 1
            if margin < 1e-9:
                amb += 1
                continue
            rv = abs(o - fr) / max(abs(fr), 1e-12)
            rg = (np.abs(G - gr) / (gs + 1e-300)).max() if np.isfinite(G).all() else np.inf
            head['value'] = max(head['value'], rv / 1e-9)
            head['gradient'] = max(head['gradient'], rg / 1e-7)
            if not np.isfinite(o) or rv > 1e-9:
                viol.append(V(site, 'objective_value', 'at a %s transformation the objective driving the optimiser is %.12g, the documented pull + push '
                              'objective is %.12g' % (pn, o, fr), tr + [pn, 'k=%d' % kk]))
            if not np.isfinite(G).all() or rg > 1e-7:
                viol.append(V(site, 'gradient', 'at a %s transformation the gradient differs from the derivative of the documented objective by %.3g '
                              'relative' % (pn, rg), tr + [pn, 'k=%d' % kk]))
        # accepted iterates (verbose lines: it objective delta active learn_rate): non-increasing, last == objective of components_
        objs = []
        for line in buf.getvalue().splitlines():
            parts = line.split()
            if len(parts) == 5 and parts[0].isdigit():
                try:
                    objs.append(float(parts[1]))
                except ValueError:
                    pass
        trans += len(objs)
        f_init = ref.lmnn(L0, X, y, targets, reg)[0]
        seq = [f_init] + objs
        if any(b > a + 1e-9 * (1 + abs(a)) for a, b in zip(seq, seq[1:])):
            viol.append(V(site, 'accepted_iterates_increase', 'the objective of the accepted iterates is not non-increasing: %s' % np.round(seq[:8], 6).tolist(), tr))
        f_end, _, m_end, _ = ref.lmnn(est.components_, X, y, targets, reg)
        if objs and m_end > 1e-9 and abs(f_end - objs[-1]) > 1e-8 * (1 + abs(f_end)):
            viol.append(V(site, 'returned_not_last_accepted', 'documented objective at components_ is %.10g, the last accepted iterate had %.10g' % (f_end, objs[-1]), tr))
        if f_end > f_init + 1e-9 * (1 + abs(f_init)):
            viol.append(V(site, 'worse_than_init', 'documented objective at components_ (%.10g) is worse than at the initial transformation (%.10g)' % (f_end, f_init), tr))
    y, L0 = y_first, L0_first
    tr = [lab]
    # zero iterations
    for mi in (0, 1, 2):
        e0 = zoo.make('LMNN', ds, **dict(over, max_iter=mi))
        e0.fit(X.copy(), y.copy())
        evals += 1
        if not np.array_equal(e0.components_, L0):
            viol.append(V(site, 'zero_iterations', 'with max_iter=%d (no gradient step) components_ differs from the initial transformation' % mi, tr))
    sigs.add(('LMNN', dsn, lab, kk, reg, n_first))
    return dict(evals=evals, sigs=sigs, viol=viol, states=states, transitions=trans, headroom=head, ambiguous=amb,
                sample={'learner': 'LMNN', 'dataset': dsn, 'options': lab, 'n_neighbors': kk, 'regularization': reg,
                        'loss_grad_evaluations': len(recs), 'accepted_iterates': len(objs)})
